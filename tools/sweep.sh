#!/bin/bash
# tools/sweep.sh "<seeds>" [tier] : run every registered check at each seed; print one line per (check, seed); exit 1 on any non-zero exit
cd "$(dirname "$0")/.."
tier="${2:-quick}"
rc=0
for seed in $1; do
  for id in $(python3 -c "import json;print(' '.join(c['property_id'] for c in json.load(open('MANIFEST.json'))['checks']))"); do
    out=$(VERIF_SEED=$seed ./check $id --tier $tier 2>&1); r=$?
    echo "seed=$seed $id rc=$r $(echo "$out" | tail -1 | cut -c1-160)"
    if [ $r -ne 0 ]; then rc=1; echo "$out" | grep -A3 "^violation\|HARNESS" | head -20; fi
  done
done
exit $rc
