#!/usr/bin/env python3
"""
Confirm and evaluate seeded faults.

usage: tools/seeded.py DIR [--props C01,C14] [--tier quick] [--confirm]
  DIR contains patch.diff and demo.py. A scratch copy of /repo (git HEAD + working tree) is made under /tmp,
  the patch applied there; with --confirm the demo is run on clean and patched trees and the baseline on the
  patched tree; then each check is run with VERIF_REPO pointing at the patched copy.
"""
import json, os, shutil, subprocess, sys, tempfile
here = os.path.dirname(os.path.dirname(os.path.abspath(__file__)))
d = os.path.abspath(sys.argv[1])
props = []
tier = "quick"
if "--props" in sys.argv:
    props = sys.argv[sys.argv.index("--props") + 1].split(",")
if "--tier" in sys.argv:
    tier = sys.argv[sys.argv.index("--tier") + 1]
confirm = "--confirm" in sys.argv
tmp = tempfile.mkdtemp(prefix="vfseed_")
res = {"dir": d}
try:
    dst = os.path.join(tmp, "repo")
    shutil.copytree("/repo", dst, ignore=shutil.ignore_patterns(".git", "__pycache__", "docsite", "benchmarks"))
    env = dict(os.environ, PYTHONPATH=dst, PYTHONDONTWRITEBYTECODE="1")
    if confirm:
        r = subprocess.run(["/venv/bin/python", os.path.join(d, "demo.py")], env=env, capture_output=True, text=True, cwd=tmp)
        res["demo_clean_rc"] = r.returncode
    r = subprocess.run(["patch", "-p1", "--no-backup-if-mismatch", "-i", os.path.join(d, "patch.diff")], cwd=dst, capture_output=True, text=True)
    res["patch_rc"] = r.returncode
    if r.returncode:
        res["patch_output"] = (r.stdout + r.stderr)[-500:]
    if confirm:
        r = subprocess.run(["/venv/bin/python", os.path.join(d, "demo.py")], env=env, capture_output=True, text=True, cwd=tmp)
        res["demo_patched_rc"] = r.returncode
        r = subprocess.run([os.path.join(here, "tools", "baseline.py"), dst], capture_output=True, text=True)
        res["baseline_rc"] = r.returncode
        res["baseline"] = r.stdout.strip().splitlines()[0] if r.stdout else ""
    for p in props:
        e = dict(os.environ, VERIF_REPO=dst, VERIF_EVIDENCE_DIR=os.path.join(tmp, "evidence"))
        r = subprocess.run([os.path.join(here, "check"), p, "--tier", tier, "--no-shrink"], env=e, capture_output=True, text=True, cwd=here)
        sigs = [l[:200] for l in r.stdout.splitlines() if l.startswith("violation signature")]
        res[p] = {"rc": r.returncode, "verdict": {0: "MISSED", 1: "CAUGHT"}.get(r.returncode, "HARNESS-ERR"), "sigs": sigs[:3], "tail": r.stdout.strip().splitlines()[-1][:200] if r.stdout.strip() else r.stderr[-300:]}
finally:
    shutil.rmtree(tmp, ignore_errors=True)
print(json.dumps(res, indent=1))
