#!/usr/bin/env python3
"""
Sensitivity protocol: apply each catalogued mutant (tools/mutants.json) to a scratch
copy of /repo (under /tmp, removed afterwards), run the property's quick check with
VERIF_REPO pointing at the copy, and expect exit 1.

usage: tools/sensitivity.py [PROP ...] [--name SUBSTR] [--tests] [--jobs N]
  --tests  also run the repository's baseline on the mutant (must still pass for the mutant to count)
"""
import json, os, shutil, subprocess, sys, tempfile, concurrent.futures as cf
here = os.path.dirname(os.path.dirname(os.path.abspath(__file__)))
args = [a for a in sys.argv[1:] if not a.startswith("--")]
name_filter = None
jobs = 4
if "--name" in sys.argv:
    name_filter = sys.argv[sys.argv.index("--name") + 1]; args = [a for a in args if a != name_filter]
if "--jobs" in sys.argv:
    j = sys.argv[sys.argv.index("--jobs") + 1]; jobs = int(j); args = [a for a in args if a != j]
run_tests = "--tests" in sys.argv
muts = json.load(open(os.path.join(here, "tools", "mutants.json")))

def one(m):
    d = tempfile.mkdtemp(prefix="vfmut_")
    try:
        dst = os.path.join(d, "repo")
        shutil.copytree("/repo/formulaic", os.path.join(dst, "formulaic"))
        if run_tests:
            shutil.copytree("/repo/tests", os.path.join(dst, "tests"))
            for f in ("pyproject.toml", "setup.cfg", "conftest.py"):
                if os.path.exists(os.path.join("/repo", f)): shutil.copy(os.path.join("/repo", f), dst)
        p = os.path.join(dst, m["file"])
        s = open(p).read()
        if s.count(m["old"]) < 1:
            return (m, "STALE", "old text not found")
        s = s.replace(m["old"], m["new"], 1)
        open(p, "w").write(s)
        res = {}
        tests_ok = None
        if run_tests:
            r = subprocess.run([os.path.join(here, "tools", "baseline.py"), dst], capture_output=True, text=True)
            tests_ok = r.returncode == 0
        out = []
        for prop in m["props"]:
            env = dict(os.environ, VERIF_REPO=dst, VERIF_SEED=os.environ.get("VERIF_SEED", "1"), VERIF_EVIDENCE_DIR=os.path.join(d, "evidence"))
            r = subprocess.run([os.path.join(here, "check"), prop, "--tier", "quick", "--no-shrink"], capture_output=True, text=True, env=env, cwd=here)
            first = next((l for l in r.stdout.splitlines() if l.startswith("violation signature")), "")
            out.append((prop, r.returncode, first[:160] or r.stdout[-300:].replace("\n", " | ")))
        return (m, "tests_ok=%s" % tests_ok, out)
    finally:
        shutil.rmtree(d, ignore_errors=True)

sel = [m for m in muts if (not args or set(m["props"]) & set(args)) and (not name_filter or name_filter in m["name"])]
# (mutant runs write their evidence into the scratch copy, see VERIF_EVIDENCE_DIR)
try:
    with cf.ThreadPoolExecutor(jobs) as ex:
        for m, status, out in ex.map(one, sel):
            if isinstance(out, str):
                print(f"{m['name']:45s} {status} {out}"); continue
            for prop, rc, first in out:
                verdict = "CAUGHT" if rc == 1 else ("MISSED" if rc == 0 else "HARNESS-ERR")
                print(f"{m['name']:45s} {prop} {verdict:8s} {status} {first}")
finally:
    pass
