#!/usr/bin/env python3
"""Regenerate MANIFEST.json from the table below (single source of truth)."""
import json, os
here = os.path.dirname(os.path.dirname(os.path.abspath(__file__)))
CHECKS = json.load(open(os.path.join(here, "tools", "checks.json")))
props = [json.loads(l)["id"] for l in open(os.path.join(here, "properties.jsonl"))]
checks = []
for pid in props:
    c = CHECKS["claimed"].get(pid)
    if not c:
        continue
    checks.append({
        "property_id": pid,
        "quick_cmd": f"./check {pid} --tier quick",
        "thorough_cmd": f"./check {pid} --tier thorough",
        "evidence_file": f"evidence/{pid}.json",
        "replay_cmd_template": f"./check {pid} --replay {{path}}",
        "engine": c.get("engine", "hypothesis"),
        "level_claimed": {"category": "exploration", "text": c["text"], "design_ref": f"DESIGN.md section 3, {pid}"},
        "level_note": c["note"],
        "technique": c["technique"],
    })
na = [{"property_id": pid, "reason": CHECKS["not_applicable"].get(pid, "check not built yet in this session (planned in DESIGN.md section 3)")}
      for pid in props if pid not in CHECKS["claimed"]]
man = {
    "version": 1,
    "setup_cmd": "./setup.sh",
    "hooks": {"guard": "FORMULAIC_VERIF", "enable": "no hooks are needed: every observation point is public API; checks import /repo's working tree directly (PYTHONPATH)",
              "baseline_off_cmd": "cd /repo && /venv/bin/python -m pytest -ra -q -p no:cacheprovider --timeout=900 --continue-on-collection-errors",
              "source_commits": [], "add_only": True},
    "engines": [{"name": "hypothesis", "path": "vf/core.py", "serves_properties": [c["property_id"] for c in checks],
                 "kind_free_text": "property-based testing: seeded Hypothesis strategies, collect-bucket-shrink runner, JSON replay files, committed regression corpus"}],
    "checks": checks,
    "notes": "All checks: ./check <ID> --tier quick|thorough ; VERIF_SEED selects the Hypothesis seed; exit 0/1/2 = held / violation / harness error. known_findings.json lists fixed and open findings.",
    "not_applicable": na,
}
json.dump(man, open(os.path.join(here, "MANIFEST.json"), "w"), indent=1)
print("claimed:", [c["property_id"] for c in checks], "not claimed:", [n["property_id"] for n in na])
