#!/bin/bash
# tools/all_seeds.sh [jobs] [name-filter] : run every kept seeded fault (/verif/seeded/*) against its property's quick check
jobs="${1:-8}"; filt="${2:-}"
for d in /verif/seeded/*${filt}*/; do grep -q "masked_by_later_fix\|not_caught" $d/meta.json && continue; p=$(python3 -c "import json,sys; m=json.load(open('$d/meta.json')); print(m.get('caught_by_property', m['property']))"); echo "$d $p"; done | xargs -P $jobs -L 1 bash -c 'r=$(/verif/tools/seeded.py $0 --props $1 2>&1); echo "$r" | python3 -c "
import json,sys
try:
    r=json.load(sys.stdin); k=[x for x in r if x.startswith(\"C\") and isinstance(r[x],dict)][0]
    print(r[\"dir\"].rstrip(\"/\").split(\"/\")[-1], \"patch\", r.get(\"patch_rc\"), k, r[k][\"verdict\"], (r[k][\"sigs\"] or [\"\"])[0][:100])
except Exception as e: print(\"ERR\", e)
"'
