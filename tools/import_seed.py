#!/usr/bin/env python3
"""tools/import_seed.py SRC_DIR NAME PROP 'needs' 'ran' 'caught_by' : copy a confirmed seeded fault into /verif/seeded/NAME"""
import json, os, shutil, sys
here = os.path.dirname(os.path.dirname(os.path.abspath(__file__)))
src, name, prop, needs, ran, caught = sys.argv[1:7]
dst = os.path.join(here, "seeded", name)
os.makedirs(dst, exist_ok=True)
for f in ("patch.diff", "demo.py", "notes.md"):
    if os.path.exists(os.path.join(src, f)):
        shutil.copy(os.path.join(src, f), dst)
json.dump({"property": prop, "needs_to_manifest": needs, "what_was_run": ran, "caught_by": caught,
           "origin": "independent sub-agent given only the property text and a scratch worktree"}, open(os.path.join(dst, "meta.json"), "w"), indent=1)
print("imported", dst)
