#!/usr/bin/env python3
"""Run the repository's pinned test suite and compare with /root/.vp/BASELINE.json stable_pass.
usage: tools/baseline.py [repo_dir]   (exit 0 iff every stable test passes)"""
import json, os, subprocess, sys, tempfile, xml.etree.ElementTree as ET
repo = sys.argv[1] if len(sys.argv) > 1 else "/repo"
base = json.load(open("/root/.vp/BASELINE.json"))
stable = set(base["stable_pass"])
with tempfile.TemporaryDirectory() as d:
    xmlp = os.path.join(d, "j.xml")
    env = dict(os.environ, PYTHONPATH=repo, PYTHONDONTWRITEBYTECODE="1")
    env.pop("FORMULAIC_VERIF", None)
    subprocess.run(["/venv/bin/python", "-m", "pytest", "-q", "-p", "no:cacheprovider", "--timeout=900",
                    "--continue-on-collection-errors", "-x" if False else "-q", f"--junitxml={xmlp}", "-n", "8"],
                   cwd=repo, env=env, stdout=subprocess.DEVNULL, stderr=subprocess.DEVNULL)
    passed = set()
    for tc in ET.parse(xmlp).getroot().iter("testcase"):
        if not any(ch.tag in ("failure", "error", "skipped") for ch in tc):
            passed.add(f"{tc.get('classname')}::{tc.get('name')}")
missing = sorted(stable - passed)
print(f"stable={len(stable)} passed_total={len(passed)} stable_missing={len(missing)} newly_passing={len(passed - stable)}")
for m in missing[:40]:
    print("  MISSING", m)
sys.exit(1 if missing else 0)
