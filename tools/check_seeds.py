#!/usr/bin/env python3
"""For every /verif/seeded/<name>/patch.diff: does it apply to /repo HEAD with `git apply`? If only `patch` (fuzz) applies,
rewrite patch.diff as a clean diff against HEAD. Report the rest."""
import os, shutil, subprocess, sys, tempfile
here = os.path.dirname(os.path.dirname(os.path.abspath(__file__)))
bad = []
for name in sorted(os.listdir(os.path.join(here, "seeded"))):
    p = os.path.join(here, "seeded", name, "patch.diff")
    if not os.path.exists(p):
        continue
    r = subprocess.run(["git", "-C", "/repo", "apply", "--check", p], capture_output=True, text=True)
    if r.returncode == 0:
        continue
    tmp = tempfile.mkdtemp(prefix="vfps_")
    try:
        dst = os.path.join(tmp, "repo")
        subprocess.run(["git", "clone", "-q", "/repo", dst], check=True)
        r2 = subprocess.run(["patch", "-p1", "--no-backup-if-mismatch", "-i", p], cwd=dst, capture_output=True, text=True)
        if r2.returncode == 0:
            d = subprocess.run(["git", "-C", dst, "diff"], capture_output=True, text=True).stdout
            open(p, "w").write(d)
            print("refreshed", name)
        else:
            bad.append(name)
            print("DOES NOT APPLY", name, r2.stdout[-200:].replace("\n", " | "))
    finally:
        shutil.rmtree(tmp, ignore_errors=True)
print("not applying:", bad)
