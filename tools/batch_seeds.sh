#!/bin/bash
# tools/batch_seeds.sh ROOT [jobs] : evaluate every ROOT/<ID>/<k> seeded fault against check <ID> (with --confirm), in parallel
root="$1"; jobs="${2:-6}"
ls -d $root/C*/*/ | while read d; do id=$(basename $(dirname $d)); echo "$d $id"; done | xargs -P $jobs -L 1 bash -c 'r=$(/verif/tools/seeded.py $0 --props $1 --confirm 2>&1); echo "$r" | python3 -c "
import json,sys
try:
    r=json.load(sys.stdin); k=[x for x in r if x.startswith(\"C\") and isinstance(r[x],dict)][0]
    print(r[\"dir\"], \"patch\", r.get(\"patch_rc\"), \"demo\", r.get(\"demo_clean_rc\"), r.get(\"demo_patched_rc\"), \"base\", r.get(\"baseline_rc\"), k, r[k][\"verdict\"], (r[k][\"sigs\"] or [\"\"])[0][:110])
except Exception as e: print(\"ERR\", e)
"'
