#!/bin/bash
# tools/thorough_all.sh [IDs...] : run the thorough tier of every (or the given) check once; one summary line each
cd "$(dirname "$0")/.."
ids="${@:-C01 C02 C03 C04 C05 C06 C07 C08 C09 C10 C11 C12 C13 C14 C15 C16 C17 C18 C19 C20}"
for id in $ids; do
  t0=$(date +%s)
  out=$(./check $id --tier thorough 2>&1); rc=$?
  echo "$id rc=$rc wall=$(( $(date +%s) - t0 ))s $(echo "$out" | grep -E "^$id tier" | tail -1)"
  echo "$out" | grep -E "^VIOLATION|HARNESS" | head -5
done
