#!/bin/bash
# Idempotent, offline: make sure hypothesis (in /venv) and atheris (in /verif/.deps) are importable.
here="$(cd "$(dirname "$0")" && pwd)"
W=/opt/veriftools/wheels
/venv/bin/python -c "import hypothesis" 2>/dev/null || \
  PIP_NO_INDEX=1 /venv/bin/pip install --no-index --find-links "$W" hypothesis || exit 1
mkdir -p "$here/.deps"
PYTHONPATH="$here/.deps" /venv/bin/python -c "import atheris" 2>/dev/null || \
  PIP_NO_INDEX=1 /venv/bin/pip install --no-index --find-links "$W" --target "$here/.deps" atheris \
  || echo "note: atheris not installable; fuzz phases will be skipped (recorded in evidence)"
mkdir -p "$here/evidence" "$here/replay"
exit 0
