"""Helpers to turn library objects into plain JSON for comparison."""

from __future__ import annotations

from typing import Any


def terms_json(obj: Any) -> Any:
    """
    SimpleFormula / OrderedSet / list of Term  -> ["T", [[factor exprs], ...]]
    tuple                                     -> ["P", [...]]
    Structured                                -> {key: ...}
    """
    from formulaic.utils.structured import Structured
    from formulaic.formula import SimpleFormula

    if isinstance(obj, SimpleFormula):
        return ["T", [[f.expr for f in t.factors] for t in obj]]
    if isinstance(obj, Structured):
        return {k: terms_json(v) for k, v in obj._structure.items()}
    if isinstance(obj, tuple):
        return ["P", [terms_json(v) for v in obj]]
    return ["T", [[f.expr for f in t.factors] for t in obj]]


def normalize_terms(j: Any, keep_factor_order: bool = True) -> Any:
    """Canonical form for comparison: terms as (sorted) factor lists."""
    if isinstance(j, dict):
        return {k: normalize_terms(v, keep_factor_order) for k, v in j.items()}
    if j[0] == "P":
        return ["P", [normalize_terms(v, keep_factor_order) for v in j[1]]]
    if keep_factor_order:
        return ["T", [list(t) for t in j[1]]]
    return ["T", [sorted(t) for t in j[1]]]


def parser_for(cfg: dict):
    from formulaic.parser import DefaultFormulaParser

    names = list(cfg.get("flags", ["TWOSIDED", "MULTIPART"]))
    spelling = cfg.get("flag_spelling", 0)
    if spelling:
        # the same configuration written as a set of (lower-case) names, with the convenience names where they apply:
        # "none" is the empty set, "default" = {twosided, multipart}, "all" = every flag
        rest = set(n.lower() for n in names)
        if spelling == 2 and {"twosided", "multipart", "multistage"} <= rest:
            spec = {"all"}
        elif spelling >= 1 and {"twosided", "multipart"} <= rest:
            spec = {"default"} | (rest - {"twosided", "multipart"})
        else:
            spec = {"none"} | rest
        return DefaultFormulaParser(include_intercept=cfg.get("intercept", True), feature_flags=spec)
    flags = DefaultFormulaParser.FeatureFlags.NONE
    for f in names:
        flags |= getattr(DefaultFormulaParser.FeatureFlags, f)
    return DefaultFormulaParser(include_intercept=cfg.get("intercept", True), feature_flags=flags)


def model_matrix(spec, data, **kw):
    """formulaic.model_matrix with an explicit empty context: the default (context=0) captures the *caller's*
    local variables, i.e. the harness's own locals, which could shadow transforms such as `exp`."""
    from formulaic import model_matrix as _mm

    kw.setdefault("context", {})
    return _mm(spec, data, **kw)
