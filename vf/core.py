"""
Common machinery: case hashing, campaign runner (collect -> bucket -> shrink),
known-finding matching, evidence writing, replay.

Vocabulary
----------
case        JSON-able value produced by a Hypothesis strategy (or an enumerator).
Outcome     what `check_case(case)` returns: violations (each with a *signature*
            dict), a non-triviality flag, class labels for the histogram, and a
            `rejected` flag for inputs the library legitimately refused.
campaign    (name, strategy, check_case, n_cases) - one generator/oracle pair.
signature   small dict of strings naming the sub-assertion that failed and the
            features of the input the oracle blames.  Known findings match on
            a subset of the signature.
"""

from __future__ import annotations

import hashlib
import json
import math
import os
import sys
import time
import traceback
from collections import Counter
from dataclasses import dataclass, field
from typing import Any, Callable, Optional

VERIF_DIR = os.path.dirname(os.path.dirname(os.path.abspath(__file__)))
REPO = os.environ.get("VERIF_REPO", "/repo")


# --------------------------------------------------------------------------
# Outcome / signatures
# --------------------------------------------------------------------------


@dataclass
class Violation:
    sig: dict
    msg: str = ""

    def key(self) -> str:
        return json.dumps(self.sig, sort_keys=True)


@dataclass
class Outcome:
    violations: list = field(default_factory=list)
    nontrivial: bool = False
    classes: list = field(default_factory=list)
    rejected: bool = False

    def fail(self, _assert: str, msg: str = "", **features: Any) -> None:
        sig = {"assert": _assert}
        sig.update({k: str(v) for k, v in features.items()})
        self.violations.append(Violation(sig, str(msg)[:2000]))

    def label(self, *labels: str) -> None:
        self.classes.extend(labels)


class HarnessError(Exception):
    """Something is wrong with the harness (not with the code under test)."""


def canon(case: Any) -> str:
    return json.dumps(case, sort_keys=True, default=_json_default, ensure_ascii=True)


def _json_default(o: Any) -> Any:
    try:
        import numpy

        if isinstance(o, numpy.generic):
            return o.item()
        if isinstance(o, numpy.ndarray):
            return o.tolist()
    except Exception:  # pragma: no cover
        pass
    if isinstance(o, (set, frozenset)):
        return sorted(o, key=repr)
    if isinstance(o, tuple):
        return list(o)
    return repr(o)


def case_hash(case: Any) -> str:
    return hashlib.blake2b(canon(case).encode(), digest_size=8).hexdigest()


def lib_frame(exc: BaseException) -> Optional[str]:
    """Innermost traceback frame that lives in the formulaic package."""
    tb = exc.__traceback__
    found = None
    while tb is not None:
        fn = tb.tb_frame.f_code.co_filename
        if "/formulaic/" in fn and "/verif/" not in fn:
            found = f"{os.path.basename(fn)}:{tb.tb_frame.f_code.co_name}"
        tb = tb.tb_next
    return found


def safe_check(check_case: Callable[[Any], Outcome], case: Any) -> Outcome:
    """
    Run check_case.  An exception that escapes it and passed through library
    frames means the library crashed on an input the property's domain
    contains (check_case is expected to catch documented rejections itself):
    recorded as a violation.  An exception raised purely inside the harness is
    a HarnessError.
    """
    try:
        out = check_case(case)
    except HarnessError:
        raise
    except RecursionError as e:  # treat like any other escape
        out = Outcome()
        out.fail("escaped-exception", repr(e)[:300], exc="RecursionError", frame=lib_frame(e))
    except Exception as e:
        frame = lib_frame(e)
        if frame is None:
            raise HarnessError(
                f"check_case raised outside the library: {e!r}\ncase={canon(case)[:2000]}\n"
                + traceback.format_exc()
            ) from e
        out = Outcome()
        out.fail(
            "escaped-exception",
            "".join(traceback.format_exception_only(type(e), e))[:500],
            exc=type(e).__name__,
            frame=frame,
        )
    if not isinstance(out, Outcome):
        raise HarnessError(f"check_case returned {type(out)}")
    return out


# --------------------------------------------------------------------------
# Known findings
# --------------------------------------------------------------------------


class Findings:
    def __init__(self, prop: str):
        path = os.path.join(VERIF_DIR, "known_findings.json")
        self.open: list = []
        if os.path.exists(path):
            with open(path) as f:
                doc = json.load(f)
            for entry in doc.get("findings", []):
                if entry.get("property") == prop and entry.get("status") == "open":
                    self.open.append(entry)
        self.hits: Counter = Counter()

    def match(self, sig: dict) -> Optional[dict]:
        for entry in self.open:
            m = entry.get("match", {})
            if m and all(str(sig.get(k)) == str(v) for k, v in m.items()):
                return entry
        return None


# --------------------------------------------------------------------------
# Campaigns
# --------------------------------------------------------------------------


@dataclass
class Campaign:
    name: str
    strategy: Any  # hypothesis strategy or None (enumerated campaign)
    check_case: Callable[[Any], Outcome]
    n: int  # number of generated cases
    enumerate: Optional[Callable[[], Any]] = None  # iterable of cases (exhaustive)
    exhaustive: bool = False
    max_shrink_s: float = 45.0


@dataclass
class Stats:
    evaluations: int = 0
    rejected: int = 0
    nontrivial_hashes: set = field(default_factory=set)
    all_hashes: set = field(default_factory=set)
    classes: Counter = field(default_factory=Counter)
    samples: list = field(default_factory=list)
    sample_classes: set = field(default_factory=set)
    buckets: dict = field(default_factory=dict)  # sigkey -> dict(sig, msg, count, smallest_case, campaign)
    per_campaign: dict = field(default_factory=dict)
    notes: list = field(default_factory=list)

    def record(self, campaign: str, case: Any, out: Outcome, keep_samples: int = 12) -> None:
        self.evaluations += 1
        pc = self.per_campaign.setdefault(campaign, {"evaluations": 0, "nontrivial": 0, "rejected": 0})
        pc["evaluations"] += 1
        h = case_hash([campaign, case])
        self.all_hashes.add(h)
        if out.rejected:
            self.rejected += 1
            pc["rejected"] += 1
        if out.nontrivial:
            if h not in self.nontrivial_hashes:
                pc["nontrivial"] += 1
            self.nontrivial_hashes.add(h)
        for c in out.classes:
            self.classes[c] += 1
        # samples: keep first few non-trivial, and one per new class label
        newc = [c for c in out.classes if c not in self.sample_classes]
        if (out.nontrivial and len(self.samples) < keep_samples) or (
            newc and len(self.samples) < keep_samples * 3
        ):
            self.samples.append({"campaign": campaign, "case": json.loads(canon(case)), "classes": out.classes[:8]})
            self.sample_classes.update(out.classes)
        for v in out.violations:
            k = v.key()
            b = self.buckets.get(k)
            size = len(canon(case))
            if b is None:
                self.buckets[k] = {
                    "sig": v.sig,
                    "msg": v.msg,
                    "count": 1,
                    "case": case,
                    "size": size,
                    "campaign": campaign,
                }
            else:
                b["count"] += 1
                if size < b["size"]:
                    b.update(case=case, size=size, msg=v.msg, campaign=campaign)

    def merge(self, other: "Stats") -> None:
        self.evaluations += other.evaluations
        self.rejected += other.rejected
        self.nontrivial_hashes |= other.nontrivial_hashes
        self.all_hashes |= other.all_hashes
        self.classes.update(other.classes)
        for s in other.samples:
            if len(self.samples) < 40:
                self.samples.append(s)
        for k, b in other.buckets.items():
            mine = self.buckets.get(k)
            if mine is None:
                self.buckets[k] = b
            else:
                mine["count"] += b["count"]
                if b["size"] < mine["size"]:
                    mine.update(case=b["case"], size=b["size"], msg=b["msg"], campaign=b["campaign"])
        for c, pc in other.per_campaign.items():
            m = self.per_campaign.setdefault(c, {"evaluations": 0, "nontrivial": 0, "rejected": 0})
            for kk in m:
                m[kk] += pc[kk]
        self.notes.extend(other.notes)


def hyp_settings(n: int, shrink: bool = False):
    from hypothesis import HealthCheck, Phase, settings

    phases = [Phase.generate] + ([Phase.shrink] if shrink else [])
    return settings(
        max_examples=n,
        deadline=None,
        database=None,
        derandomize=False,
        report_multiple_bugs=False,
        phases=phases,
        suppress_health_check=[HealthCheck.too_slow, HealthCheck.data_too_large, HealthCheck.filter_too_much, HealthCheck.large_base_example],
        print_blob=False,
    )


def run_campaign(c: Campaign, seed: int, stats: Stats, budget_s: Optional[float] = None) -> None:
    """Generation phase: record every outcome, never raise for a violation."""
    t0 = time.time()
    if c.enumerate is not None:
        for case in c.enumerate():
            out = safe_check(c.check_case, case)
            stats.record(c.name, case, out)
        return
    from hypothesis import given, seed as hseed

    state = {"stop": False}

    @hseed(seed)
    @hyp_settings(c.n)
    @given(c.strategy)
    def test(case):
        if state["stop"]:
            return
        if budget_s is not None and time.time() - t0 > budget_s:
            state["stop"] = True
            stats.notes.append(f"campaign {c.name}: time budget {budget_s}s hit after {stats.per_campaign.get(c.name, {}).get('evaluations', 0)} cases (inconclusive beyond that)")
            return
        out = safe_check(c.check_case, case)
        stats.record(c.name, case, out)

    try:
        test()
    except HarnessError:
        raise
    except Exception as e:
        # hypothesis-internal failures (health checks, Unsatisfiable, flaky)
        raise HarnessError(f"campaign {c.name}: hypothesis error {e!r}\n{traceback.format_exc()}") from e


class _StopShrink(KeyboardInterrupt):
    pass


def shrink_bucket(c: Campaign, seed: int, sigkey: str, start_case: Any, max_s: float) -> Any:
    """
    Re-run the seeded campaign with a property that raises only for this
    signature, letting Hypothesis shrink; capped by wall time.  Returns the
    smallest failing case seen (falls back to start_case).
    """
    best = {"case": start_case, "size": len(canon(start_case))}
    if c.strategy is None:
        return start_case
    from hypothesis import given, seed as hseed

    t0 = time.time()

    class Fail(Exception):
        pass

    @hseed(seed)
    @hyp_settings(max(c.n, 200), shrink=True)
    @given(c.strategy)
    def test(case):
        if time.time() - t0 > max_s:
            raise _StopShrink()
        out = safe_check(c.check_case, case)
        for v in out.violations:
            if v.key() == sigkey:
                size = len(canon(case))
                if size <= best["size"]:
                    best.update(case=case, size=size)
                raise Fail(sigkey)

    try:
        test()
    except _StopShrink:
        pass
    except Fail:
        pass
    except HarnessError:
        raise
    except Exception:
        pass
    return best["case"]


# --------------------------------------------------------------------------
# Sharding
# --------------------------------------------------------------------------


def _shard_worker(args):
    prop, tier, seed, shard, nshards = args
    os.environ["VERIF_SHARD"] = str(shard)
    import importlib

    mod = importlib.import_module(f"vf.props.{prop}")
    stats = Stats()
    try:
        for c in mod.campaigns(tier, shard=shard, nshards=nshards):
            run_campaign(c, seed * 1000 + shard, stats, budget_s=getattr(mod, "BUDGET_S", {}).get(tier))
    except HarnessError as e:
        return ("harness", str(e))
    # make picklable / smaller
    return ("ok", stats)


def run_sharded(prop: str, tier: str, seed: int, nshards: int) -> Stats:
    import multiprocessing as mp

    ctx = mp.get_context("fork")
    with ctx.Pool(nshards) as pool:
        results = pool.map(_shard_worker, [(prop, tier, seed, s, nshards) for s in range(nshards)])
    total = Stats()
    for kind, payload in results:
        if kind == "harness":
            raise HarnessError(payload)
        total.merge(payload)
    return total


# --------------------------------------------------------------------------
# Evidence
# --------------------------------------------------------------------------


def write_evidence(prop: str, tier: str, seed: int, stats: Stats, mod: Any, wall: float, nviol: int, extra: dict) -> str:
    cov = {
        "evaluations": int(stats.evaluations),
        "distinct_nontrivial": int(len(stats.nontrivial_hashes)),
        "distinct_cases": int(len(stats.all_hashes)),
        "rule": mod.RULE,
        "samples": stats.samples[:30],
        "class_histogram": dict(sorted(stats.classes.items())),
        "rejections": int(stats.rejected),
        "per_campaign": stats.per_campaign,
        "notes": stats.notes[:50],
    }
    cov.update(extra)
    doc = {
        "property_id": prop,
        "tier": tier,
        "seed": int(seed),
        "level": "exploration",
        "coverage": cov,
        "assumptions": list(getattr(mod, "ASSUMPTIONS", [])),
        "wall_s": round(wall, 3),
        "violations": int(nviol),
    }
    # (tools that run a check against a deliberately broken tree redirect its evidence away from /verif/evidence)
    path = os.path.join(os.environ.get("VERIF_EVIDENCE_DIR") or os.path.join(VERIF_DIR, "evidence"), f"{prop}.json")
    os.makedirs(os.path.dirname(path), exist_ok=True)
    tmp = path + ".tmp"
    with open(tmp, "w") as f:
        json.dump(doc, f, indent=1, default=_json_default, sort_keys=False)
    os.replace(tmp, path)
    return path


def write_replay(prop: str, campaign: str, case: Any, sig: dict, msg: str) -> str:
    d = os.path.join(VERIF_DIR, "replay")
    os.makedirs(d, exist_ok=True)
    h = case_hash([campaign, case, sig])
    path = os.path.join(d, f"{prop}-{h}.json")
    with open(path, "w") as f:
        json.dump(
            {"property": prop, "campaign": campaign, "case": json.loads(canon(case)), "signature": sig, "message": msg},
            f,
            indent=1,
        )
    return os.path.relpath(path, VERIF_DIR)


def isclose(a: float, b: float, rtol: float = 1e-9, atol: float = 1e-12) -> bool:
    if math.isnan(a) and math.isnan(b):
        return True
    return abs(a - b) <= atol + rtol * max(abs(a), abs(b))
