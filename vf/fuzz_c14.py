"""
Coverage-guided fuzz target for C14 (atheris / libFuzzer), run as a child process by vf.props.C14.extra_phase:

    python -m vf.fuzz_c14 OUTDIR [libFuzzer flags...] [CORPUS_DIR]

The semantic oracle is C14's own check_string (exception contract, feature flags, entry-point agreement), evaluated
inside the target; a violation does not stop the campaign (it is bucketed by signature and written to
OUTDIR/violations.jsonl), so the search continues behind a shallow defect. Input layout (so that a seed corpus can be
written by hand): byte 0 = mode/intercept, byte 1 = feature-flag subset, rest = the formula (mode 0: UTF-8 text,
mode 1: one entry of C14.ALPHA per byte).
"""

from __future__ import annotations

import json
import os
import sys


def decode(data: bytes):
    from vf.props import C14

    if len(data) < 2:
        return None
    mode = data[0] & 1
    cfg = {"intercept": bool(data[0] & 2), "flags": C14.FLAGSETS[data[1] % len(C14.FLAGSETS)]}
    body = data[2:]
    if mode == 0:
        s = body.decode("utf-8", errors="ignore")[:96]
    else:
        s = "".join(C14.ALPHA[b % len(C14.ALPHA)] for b in body[:40])[:96]
    return {"s": s, "cfg": cfg}


def main():
    outdir = sys.argv[1]
    rest = sys.argv[2:]
    os.makedirs(outdir, exist_ok=True)
    import atheris

    with atheris.instrument_imports(include=["formulaic.parser", "formulaic.utils.code", "formulaic.formula"]):
        import formulaic  # noqa: F401
        import formulaic.parser  # noqa: F401
    from vf.core import safe_check, canon
    from vf.props import C14

    counts = {"execs": 0, "decoded": 0, "accepted": 0, "rejected": 0, "violations": 0}
    seen = set()
    vio = open(os.path.join(outdir, "violations.jsonl"), "a")

    def flush():
        with open(os.path.join(outdir, "counts.json.tmp"), "w") as f:
            json.dump(counts, f)
        os.replace(os.path.join(outdir, "counts.json.tmp"), os.path.join(outdir, "counts.json"))

    def one(data: bytes):
        counts["execs"] += 1
        case = decode(data)
        if case is not None:
            counts["decoded"] += 1
            out = safe_check(C14.check_string, case)
            counts["rejected" if out.rejected else "accepted"] += 1
            for v in out.violations:
                counts["violations"] += 1
                key = canon(v.sig)
                if key not in seen:
                    seen.add(key)
                    vio.write(json.dumps({"case": case, "sig": v.sig, "msg": v.msg[:600]}) + "\n")
                    vio.flush()
        if counts["execs"] % 500 == 0:
            flush()

    atheris.Setup([sys.argv[0]] + rest, one)
    flush()
    atheris.Fuzz()


if __name__ == "__main__":
    main()
