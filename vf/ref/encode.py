"""
R-encode: independent reference encoder for data-side formulas (see gen/frames.py).

encode_factor(f, frame_case, rows=None, levels_override=None) ->
    {"full": [(name, np.array)], "reduced": [(name, np.array)] | None, "levels": [...], "null": bool mask}
expected_matrix(fc, frame_case, reduced_flags=None) -> (names, matrix)
"""

from __future__ import annotations

import math

import numpy as np

from ..gen.frames import factor_src, term_degree
from . import contrasts as RC


def col_values(frame_case, col):
    return frame_case["cols"][col]["values"]


def levels_of(frame_case, col):
    c = frame_case["cols"][col]
    if c["dtype"] == "category":
        return list(c["categories"])
    return sorted({v for v in c["values"] if v is not None})


def numeric(frame_case, col):
    return np.array([np.nan if v is None else float(v) for v in col_values(frame_case, col)], dtype=float)


def py_eval(fn, arrays):
    a = arrays[0]
    if fn in ("add1", "brace_add1"):
        return a + 1.0
    if fn == "mul":
        return a * arrays[1]
    if fn == "exp":
        return np.array([math.exp(v) if not math.isnan(v) else math.nan for v in a])
    if fn == "sq":
        return a * a
    if fn == "neg":
        return -a
    if fn == "arr":
        return a * 1.0
    raise ValueError(fn)


def encode_factor(f, frame_case, levels_override=None):
    k = f["k"]
    name = factor_src(f)[1]
    if k == "num":
        v = numeric(frame_case, f["col"])
        return {"full": [(name, v)], "reduced": None, "kind": "numerical"}
    if k == "py" and f["fn"] == "stack":
        a, b = (numeric(frame_case, c) for c in f["cols"])
        return {"full": [(f"{name}[0]", a), (f"{name}[1]", b)], "reduced": None, "kind": "numerical"}
    if k == "py":
        v = py_eval(f["fn"], [numeric(frame_case, c) for c in f["cols"]])
        return {"full": [(name, v)], "reduced": None, "kind": "numerical"}
    if k == "polyraw":
        v = numeric(frame_case, f["col"])
        return {"full": [(f"{name}[{d - 1}]", v**d) for d in range(1, f["deg"] + 1)], "reduced": None, "kind": "numerical"}
    if k == "st":
        v = numeric(frame_case, f["col"])
        m = v.mean()
        if f["fn"] == "center":
            return {"full": [(name, v - m)], "reduced": None, "kind": "numerical"}
        sd = np.sqrt(((v - m) ** 2).sum() / (len(v) - 1)) if len(v) > 1 else np.nan
        return {"full": [(name, (v - m) / sd)], "reduced": None, "kind": "numerical"}
    if k == "hashed":
        from hashlib import md5

        data = col_values(frame_case, f["col"])
        L = f["levels"]
        codes = [int(md5(str(v).encode()).hexdigest(), 16) % L for v in data]
        I = np.zeros((len(data), L))
        for i, c in enumerate(codes):
            I[i, c] = 1.0
        return {"full": [(f"{name}[{j}]", I[:, j]) for j in range(L)], "reduced": None, "kind": "categorical"}
    if k in ("cat", "C"):
        levels = levels_override if levels_override is not None else (list(f["levels"]) if f.get("levels") else levels_of(frame_case, f["col"]))
        data = col_values(frame_case, f["col"])
        I = np.zeros((len(data), len(levels)))
        for i, v in enumerate(data):
            if v is not None and v in levels:
                I[i, levels.index(v)] = 1.0
        spec = (f.get("contrast") or {"kind": "treatment"}) if k == "C" else {"kind": "treatment"}
        full = [(f"{name}[{l}]", I[:, j]) for j, l in enumerate(levels)]
        n = len(levels)
        if n == 0:
            return {"full": [], "reduced": [], "kind": "categorical", "levels": levels}
        Cm = RC.coding(spec, n, levels)
        R = I @ Cm
        pre = RC.PREFIX[spec["kind"]]
        reduced = [(f"{name}[{pre}{l}]", R[:, j]) for j, l in enumerate(RC.column_names(spec, levels))]
        return {"full": full, "reduced": reduced, "kind": "categorical", "levels": levels}
    raise ValueError(k)


def kron(factor_cols):
    """Row-wise Kronecker product, first factor varying fastest. factor_cols: list of [(name, array)]."""
    out = [("", None)]
    # iterate with the last factor outermost
    import itertools

    res = []
    for combo in itertools.product(*reversed(factor_cols)):
        combo = combo[::-1]
        name = ":".join(c[0] for c in combo)
        val = None
        for c in combo:
            val = c[1].copy() if val is None else val * c[1]
        res.append((name, val))
    return res


def term_scale(term):
    s = 1.0
    for f in term:
        if f["k"] == "lit":
            s *= float(f["v"])
    return s


def expected_full(fc, frame_case, levels_override=None):
    """Expected (names, matrix, term_slices) with rank reduction disabled."""
    n = frame_case["n"]
    names, cols, slices = [], [], []
    terms = list(fc["terms"])
    if fc["intercept"]:
        names.append("Intercept")
        cols.append(np.ones(n))
        slices.append(("1", 0, 1))
    for t in terms:
        enc = [encode_factor(f, frame_case, (levels_override or {}).get(factor_src(f)[1]))["full"] for f in t if f["k"] != "lit"]
        start = len(names)
        for name, val in kron(enc):
            names.append(name)
            cols.append(term_scale(t) * val)
        slices.append((":".join(factor_src(f)[1] for f in t), start, len(names)))
    M = np.column_stack(cols) if cols else np.zeros((n, 0))
    return names, M, slices


def expected_from_structure(fc, frame_case, reduced_map, levels_override=None):
    """
    Expected matrix given, per term, the list of scoped terms as
    [(factor_name, reduced_bool), ...] read from model_spec.structure.
    reduced_map: list aligned with the library's terms: (term_factor_names, [scoped ...])
    """
    n = frame_case["n"]
    by_name = {}
    for t in fc["terms"]:
        for f in t:
            by_name[factor_src(f)[1]] = f
    names, cols = [], []
    for term_factors, scoped_terms, scale in reduced_map:
        for scoped in scoped_terms:
            if not scoped:
                names.append("Intercept")
                cols.append(scale * np.ones(n))
                continue
            enc = []
            for fname, red in scoped:
                e = encode_factor(by_name[fname], frame_case, (levels_override or {}).get(fname))
                enc.append(e["reduced"] if (red and e["reduced"] is not None) else e["full"])
            for name, val in kron(enc):
                names.append(name)
                cols.append(scale * val)
    M = np.column_stack(cols) if cols else np.zeros((n, 0))
    return names, M


def split_label(label, names=()):
    """Split a column label on ':' outside brackets/parentheses/braces/quotes. `names`: column names that themselves
    contain ':' (they appear verbatim, unquoted, at the start of a label piece) and must not be split."""
    parts, depth, cur, q = [], 0, "", None
    i = -1
    skip = 0
    for ch in label:
        i += 1
        if skip:
            skip -= 1
            cur += ch
            continue
        if not cur and depth == 0 and not q:
            hit = next((nm for nm in names if ":" in nm and label.startswith(nm, i)), None)
            if hit:
                cur += ch
                skip = len(hit) - 1
                continue
        if q:
            cur += ch
            if ch == q:
                q = None
            continue
        if ch in "'\"":
            q = ch
            cur += ch
            continue
        if ch in "([{":
            depth += 1
        elif ch in ")]}":
            depth -= 1
        if ch == ":" and depth == 0:
            parts.append(cur)
            cur = ""
        else:
            cur += ch
    parts.append(cur)
    return parts


def column_dictionary(fc, frame_case, levels_override=None):
    """Every full and reduced factor column by label."""
    d = {}
    for t in fc["terms"]:
        for f in t:
            if f["k"] == "lit":
                continue
            e = encode_factor(f, frame_case, (levels_override or {}).get(factor_src(f)[1]))
            for nm, v in e["full"]:
                d[nm] = v
            for nm, v in e["reduced"] or []:
                d.setdefault(nm, v)
    return d
