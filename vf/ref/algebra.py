"""
R-algebra: reference evaluation of G-formula trees to ordered term lists, written
from the operator table in docsite/docs/guides/grammar.md.

A term is a tuple of factor strings in first-appearance order (no repeats);
two terms are the same term iff they have the same factor *set*.  A term list
is an ordered set of terms (first appearance wins).

Raises Unspecified for inputs whose meaning the docs do not define (empty
operand of / or %in%, sign directly after a tighter operator, ...): callers
count and skip those.
"""

from __future__ import annotations

import itertools


class Unspecified(Exception):
    pass


def _key(term):
    return frozenset(term)


def oset(terms):
    seen = {}
    for t in terms:
        seen.setdefault(_key(t), t)
    return list(seen.values())


def tmul(a, b):
    out = list(a)
    for f in b:
        if f not in out:
            out.append(f)
    return tuple(out)


def union(a, b):
    return oset(list(a) + list(b))


def diff(a, b):
    kb = {_key(t) for t in b}
    return [t for t in a if _key(t) not in kb]


def interact(a, b):
    return oset(tmul(x, y) for x in a for y in b)


LITERALS = {"1"}
# names met while evaluating the current formula: a (quoted) column called `1z` is a name although it starts with a digit
_NAME_ATOMS = set()


def is_literal(f):
    if f in _NAME_ATOMS:
        return False
    return f == "1" or f[:1].isdigit() or f[:1] == "."


def degree(term):
    return sum(1 for f in term if not is_literal(f))


def parity(run):
    return run.count("-") % 2


def ev(node, env):
    """Evaluate an expression node to a term list. env: {'dot': [names]}"""
    k = node[0]
    if k in ("n", "q"):
        if node[1] != "1":
            _NAME_ATOMS.add(node[1])
        return [(node[1],)]
    if k in ("c", "p"):
        return [(node[1],)]
    if k == "1":
        return [("1",)]
    if k == "num":
        return [(node[1],)]
    if k == "0":
        # "0" is rewritten to "-1": leading / parenthesised alone => unary minus of 1
        return []
    if k == ".":
        if env.get("dot") is None:
            raise Unspecified("dot without available variables")
        return [(v,) for v in env["dot"]]
    if k in ("()", "[]"):
        return ev(node[1], env)
    if k == "u":
        inner = ev(node[2], env)
        return [] if parity(node[1]) else inner
    if k == "^":
        base = ev(node[1], env)
        n = node[2]
        if n < 1:
            raise Unspecified("non-positive power")
        out = base
        acc = [()]
        # k-fold product of the set with itself, left-major order
        res = []
        for combo in itertools.product(*[base] * n):
            t = ()
            for c in combo:
                t = tmul(t, c)
            res.append(t)
        return oset(res)
    if k == "b":
        op, l, r = node[1], node[2], node[3]
        if op in "+-":
            left = ev(l, env)
            # right operand "0" == "-1": flips the operator, operand is 1
            if r[0] == "0":
                op = "-" if op == "+" else "+"
                right = [("1",)]
            else:
                right = ev(r, env)
            return union(left, right) if op == "+" else diff(left, right)
        if l[0] == "0" or r[0] == "0":
            raise Unspecified("0 as operand of a non-additive operator")
        left, right = ev(l, env), ev(r, env)
        if op == ":":
            return interact(left, right)
        if op == "*":
            return union(union(left, right), interact(left, right))
        if op == "%in%":
            left, right = right, left
            op = "/"
        if op == "/":
            if not left:
                raise Unspecified("empty parent set for / or %in%")
            common = ()
            for t in left:
                common = tmul(common, t)
            return union(left, oset(tmul(common, t) for t in right))
    raise ValueError(node)


def with_intercept(node):
    """
    The implicit intercept is a textual '1 +' in front of the part; a leading
    sign run therefore acts as a *binary* operator on that 1.
    """
    if node[0] == "b" and node[1] in "+-":
        return ["b", node[1], with_intercept(node[2]), node[3]]
    if node[0] == "u":
        return ["b", "-" if parity(node[1]) else "+", ["1"], node[2]]
    if node[0] == "0":
        return ["b", "-", ["1"], ["1"]]
    return ["b", "+", ["1"], node]


def order(terms):
    return sorted(terms, key=degree)  # stable


def check_degenerate(terms):
    """
    Term lists the library documents as errors ("numeric literals other than 1
    can only scale other terms", "term already seen with a different scaling").
    Returns a reason string or None.
    """
    seen = set()
    for t in terms:
        nonlit = tuple(f for f in t if not is_literal(f))
        if not nonlit and t != ("1",):
            return "literal-only term"
        if nonlit in seen:
            return "same factors, two scalings"
        seen.add(nonlit)
    return None


def variables_of(node):
    """Data variables referenced by an expression tree (used for '.' on the LHS)."""
    k = node[0]
    if k in ("n", "q"):
        return [node[1]]
    if k in ("c", "p"):
        return list(node[2])
    if k in ("()", "[]"):
        return variables_of(node[1])
    if k == "u":
        return variables_of(node[2])
    if k == "^":
        return variables_of(node[1])
    if k == "b":
        return variables_of(node[2]) + variables_of(node[3])
    return []


def ev_structured(s, include_intercept=True, available=None, ordered=True):
    """
    Returns JSON shape: ["T", [[factors...], ...]] for a term list, ["P", [...]]
    for tuple parts, {"lhs":..., "rhs":...} for two-sided formulas.
    """
    _NAME_ATOMS.clear()
    used_lhs = []
    for part in s["lhs"] or []:
        used_lhs += variables_of(part)
    dot = None if available is None else [v for v in available if v not in set(used_lhs)]

    def one(part, side):
        env = {"dot": dot if side == "rhs" else (None if available is None else list(available))}
        node = with_intercept(part) if (include_intercept and side == "rhs") else part
        terms = ev(node, env)
        reason = check_degenerate(terms)
        if reason:
            raise Unspecified(reason)
        if ordered:
            terms = order(terms)
        return ["T", [list(t) for t in terms]]

    def side(parts, name):
        vals = [one(p, name) for p in parts]
        return vals[0] if len(vals) == 1 else ["P", vals]

    if s["lhs"]:
        return {"lhs": side(s["lhs"], "lhs"), "rhs": side(s["rhs"], "rhs")}
    out = side(s["rhs"], "rhs")
    return {"root": out} if out[0] == "P" else out
