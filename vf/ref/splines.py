"""
R-spline: independent references for B-splines and natural / periodic cubic
cardinal splines.
"""

from __future__ import annotations

import numpy as np


def bspline_basis(x, t, k):
    """
    Textbook Cox-de Boor recursion. t: full knot vector (with k repeated boundary knots
    on each side), k: degree. Half-open intervals; the last interval [t[n-1], t[n]] with
    n = len(t)-k-1 is closed on the right. 0/0 := 0. Returns array (len(x), len(t)-k-1).
    Outside [t[k], t[n]] the basis is 0.  NaN in x gives a NaN row.
    """
    x = np.asarray(x, dtype=float)
    t = list(map(float, t))
    n = len(t) - k - 1
    out = np.zeros((len(x), n))
    for r, xv in enumerate(x):
        if np.isnan(xv):
            out[r, :] = np.nan
            continue
        if xv < t[k] or xv > t[n]:
            continue
        # degree 0
        B = [0.0] * (len(t) - 1)
        if xv == t[n]:
            B[n - 1] = 1.0
        else:
            for i in range(len(t) - 1):
                if t[i] <= xv < t[i + 1]:
                    B[i] = 1.0
                    break
        for d in range(1, k + 1):
            Bn = [0.0] * (len(t) - d - 1)
            for i in range(len(t) - d - 1):
                a = (xv - t[i]) / (t[i + d] - t[i]) if t[i + d] != t[i] else 0.0
                b = (t[i + d + 1] - xv) / (t[i + d + 1] - t[i + 1]) if t[i + d + 1] != t[i + 1] else 0.0
                Bn[i] = a * B[i] + b * B[i + 1]
            B = Bn
        out[r, :] = B[:n]
    return out


def bspline_scipy(x, t, k, extrapolate=False):
    from scipy.interpolate import BSpline

    x = np.asarray(x, dtype=float)
    t = np.asarray(t, dtype=float)
    n = len(t) - k - 1
    out = np.empty((len(x), n))
    for i in range(n):
        c = np.zeros(n)
        c[i] = 1.0
        out[:, i] = BSpline(t, c, k, extrapolate=extrapolate)(x)
    return out


def natural_cardinal(x, knots):
    """Cardinal basis of the natural interpolating cubic spline through `knots`, linearly continued outside."""
    from scipy.interpolate import CubicSpline

    x = np.asarray(x, dtype=float)
    knots = np.asarray(knots, dtype=float)
    n = len(knots)
    out = np.empty((len(x), n))
    lo, hi = knots[0], knots[-1]
    for i in range(n):
        y = np.zeros(n)
        y[i] = 1.0
        if n == 2:
            # two knots: the natural cubic spline is the straight line through them
            vals = y[0] + (y[1] - y[0]) * (x - lo) / (hi - lo)
            out[:, i] = vals
            continue
        cs = CubicSpline(knots, y, bc_type="natural")
        v = cs(np.clip(x, lo, hi))
        below, above = x < lo, x > hi
        v = np.where(below, cs(lo) + cs(lo, 1) * (x - lo), v)
        v = np.where(above, cs(hi) + cs(hi, 1) * (x - hi), v)
        v = np.where(np.isnan(x), np.nan, v)
        out[:, i] = v
    return out


def cyclic_cardinal(x, knots):
    """Cardinal basis (len(knots)-1 functions) of the periodic interpolating cubic spline; x wrapped into the period."""
    from scipy.interpolate import CubicSpline

    x = np.asarray(x, dtype=float)
    knots = np.asarray(knots, dtype=float)
    n = len(knots) - 1
    lo, hi = knots[0], knots[-1]
    xw = x.copy()
    m = xw > hi
    xw[m] = lo + (xw[m] - hi) % (hi - lo)
    m = xw < lo
    xw[m] = hi - (lo - xw[m]) % (hi - lo)
    out = np.empty((len(x), n))
    for i in range(n):
        y = np.zeros(n + 1)
        y[i] = 1.0
        if i == 0:
            y[n] = 1.0
        if n == 1:
            out[:, i] = np.where(np.isnan(x), np.nan, 1.0)
            continue
        cs = CubicSpline(knots, y, bc_type="periodic")
        out[:, i] = np.where(np.isnan(x), np.nan, cs(xw))
    return out
