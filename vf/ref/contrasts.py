"""
R-contrast: from-scratch reference coding matrices (numpy arrays, n x (n-1)),
following R's contr.treatment / contr.SAS / contr.sum / contr.helmert /
contr.poly, MASS::contr.sdif, and the forward / scaled Helmert and forward
difference variants as defined by patsy / UCLA's coding-systems notes.

spec: {"kind": "treatment"|"SAS"|"sum"|"helmert"|"diff"|"poly", plus options}
"""

from __future__ import annotations

from fractions import Fraction

import numpy as np


def coding(spec: dict, n: int, levels=None) -> np.ndarray:
    kind = spec["kind"]
    if n == 0:
        return np.zeros((0, 0))
    if kind in ("treatment", "SAS"):
        b = base_index(spec, n, levels)
        return np.array([[1.0 if r == c else 0.0 for c in range(n) if c != b] for r in range(n)]).reshape(n, n - 1)
    M = np.zeros((n, n - 1))
    if kind == "sum":
        for j in range(n - 1):
            M[j, j] = 1.0
            M[n - 1, j] = -1.0
        return M
    if kind == "helmert":
        rev, scale = spec.get("reverse", True), spec.get("scale", False)
        for j in range(n - 1):
            if rev:  # R: compare level j+1 with the mean of the previous ones
                for r in range(j + 1):
                    M[r, j] = -1.0
                M[j + 1, j] = j + 1.0
                if scale:
                    M[:, j] /= j + 2.0
            else:  # forward: compare level j with the mean of the subsequent ones
                M[j, j] = n - j - 1.0
                for r in range(j + 1, n):
                    M[r, j] = -1.0
                if scale:
                    M[:, j] /= n - j
        return M
    if kind == "diff":
        back = spec.get("backward", True)
        for j in range(1, n):  # MASS::contr.sdif column j (1-based)
            for r in range(n):
                M[r, j - 1] = (-(n - j) / n) if r < j else (j / n)
        return M if back else -M
    if kind == "poly":
        scores = spec.get("scores") or list(range(n))
        return poly_contrast([Fraction(str(s)) for s in scores])
    raise ValueError(kind)


def poly_contrast(scores) -> np.ndarray:
    """Orthonormal polynomial contrasts, exact Gram-Schmidt over the rationals, positive leading coefficient."""
    n = len(scores)
    mean = sum(scores) / n
    x = [s - mean for s in scores]
    basis = [[Fraction(1)] * n]
    for d in range(1, n):
        v = [xi**d for xi in x]
        for b in basis:
            bb = sum(bi * bi for bi in b)
            coef = sum(vi * bi for vi, bi in zip(v, b)) / bb
            v = [vi - coef * bi for vi, bi in zip(v, b)]
        basis.append(v)
    cols = []
    for b in basis[1:]:
        norm = float(sum(bi * bi for bi in b)) ** 0.5
        cols.append([float(bi) / norm for bi in b])
    return np.array(cols).T.reshape(n, n - 1)


def base_index(spec, n, levels):
    base = spec.get("base", None)
    if base is None:
        return 0 if spec["kind"] == "treatment" else n - 1
    return list(levels).index(base)


def column_names(spec: dict, levels) -> list:
    """Names of the reduced coding's columns (the 'field' part of the label)."""
    kind = spec["kind"]
    n = len(levels)
    levels = list(levels)
    if kind in ("treatment", "SAS"):
        b = base_index(spec, n, levels)
        return [l for i, l in enumerate(levels) if i != b]
    if kind == "sum":
        return levels[:-1]
    if kind == "helmert":
        return levels[1:] if spec.get("reverse", True) else levels[:-1]
    if kind == "diff":
        return levels[1:] if spec.get("backward", True) else levels[:-1]
    if kind == "poly":
        alias = {1: ".L", 2: ".Q", 3: ".C"}
        return [alias.get(d, f"^{d}") for d in range(1, n)]
    raise ValueError(kind)


PREFIX = {"treatment": "T.", "SAS": "T.", "sum": "S.", "helmert": "H.", "diff": "D.", "poly": ""}


def expr(spec: dict) -> str:
    """Formula-side spelling of the contrast (already in ast.unparse form)."""
    kind = spec["kind"]
    args = []
    if kind in ("treatment", "SAS") and spec.get("base") is not None:
        args.append(f"base={spec['base']!r}")
    if kind == "helmert":
        if "reverse" in spec:
            args.append(f"reverse={spec['reverse']!r}")
        if "scale" in spec:
            args.append(f"scale={spec['scale']!r}")
    if kind == "diff" and "backward" in spec:
        args.append(f"backward={spec['backward']!r}")
    if kind == "poly" and spec.get("scores"):
        args.append(f"scores={list(spec['scores'])!r}")
    return f"contr.{kind}({', '.join(args)})"


def make(spec: dict):
    """Library object for the spec."""
    from formulaic.transforms.contrasts import ContrastsRegistry as contr

    kind = spec["kind"]
    kw = {k: v for k, v in spec.items() if k != "kind" and v is not None}
    if "scores" in kw:
        kw["scores"] = list(kw["scores"])
    return getattr(contr, kind)(**kw)
