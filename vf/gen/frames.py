"""
G-frame: JSON-able data-frame cases + builders, and G-terms: data-side formula
specifications (lists of terms made of typed factors).

Frame case:
  {"n": rows, "cols": {name: {"dtype": ..., "values": [...], "categories": [...]|None}}, "index": None | [labels]}
Column names never collide with the transform namespace (C, I, Q, bs, np, log ...).

Formula case (data-side):
  {"intercept": bool, "terms": [[factor, ...], ...]}
  factor: {"k": "num", "col": "x"} | {"k": "cat", "col": "A"} | {"k": "C", "col": "A", "contrast": spec|None}
        | {"k": "py", "fn": "add1"|"mul"|"exp"|"sq"|"brace_add1", "cols": [..]} | {"k": "lit", "v": "2.5"}
        | {"k": "polyraw", "col": "x", "deg": 2}
"""

from __future__ import annotations

from hypothesis import strategies as st

from ..ref import contrasts as RC

NUM_COLS = ["x", "y", "z"]
CAT_COLS = ["A", "B", "G"]
CAT_LEVELS = {"A": ["b", "a", "d", "c"], "B": ["y", "x", "z"], "G": [3, 1, 2, 10]}
NUM_VALUES = [-2.5, -1.0, 0.0, 0.5, 1.0, 2.0, 3.0, 7.25, 100.0, -0.125]
ODD_NUM = "c d"  # non-identifier numeric column name (needs backticks)


def frame(min_rows=1, max_rows=12, nulls=False, index_kinds=("default",), odd_names=False, cat_dtypes=("object", "str", "category"), null_free=(), bool_col=False):
    @st.composite
    def strat(draw):
        n = draw(st.integers(min_rows, max_rows))
        cols = {}
        for name in NUM_COLS + ([ODD_NUM] if odd_names else []):
            dt = draw(st.sampled_from(["float64", "float64", "int64"] + (["Int64"] if nulls else [])))
            if dt == "int64":
                vals = draw(st.lists(st.integers(-3, 9), min_size=n, max_size=n))
            else:
                vals = draw(st.lists(st.sampled_from(NUM_VALUES), min_size=n, max_size=n))
            if dt == "Int64":
                vals = draw(st.lists(st.integers(-3, 9), min_size=n, max_size=n))
            if nulls and dt in ("float64", "Int64") and name not in null_free:
                mask = draw(st.lists(st.sampled_from([0, 0, 0, 1]), min_size=n, max_size=n))
                vals = [None if m else v for v, m in zip(vals, mask)]
            cols[name] = {"dtype": dt, "values": vals}
        if bool_col:
            cols["t"] = {"dtype": "bool", "values": draw(st.lists(st.booleans(), min_size=n, max_size=n))}
        for name in CAT_COLS:
            pool = CAT_LEVELS[name]
            k = draw(st.sampled_from([1, 2, 2, 3, 3, 4])) if name != "B" else draw(st.sampled_from([1, 2, 3]))
            levels = pool[:k]
            dt = draw(st.sampled_from(list(cat_dtypes))) if name != "G" else draw(st.sampled_from(["int64", "category"]))
            vals = draw(st.lists(st.sampled_from(levels), min_size=n, max_size=n))
            col = {"dtype": dt, "values": vals}
            if dt == "category":
                # declared order as given (not sorted), possibly with an unobserved category
                cats = list(levels)
                if draw(st.booleans()) and k < len(pool):
                    cats = cats + [pool[k]]
                col["categories"] = cats
            if nulls and name != "G" and name not in null_free:
                mask = draw(st.lists(st.sampled_from([0, 0, 0, 0, 1]), min_size=n, max_size=n))
                col["values"] = [None if m else v for v, m in zip(vals, mask)]
            cols[name] = col
        kind = draw(st.sampled_from(list(index_kinds)))
        index = None
        if kind == "shuffled":
            index = draw(st.permutations(list(range(n))))
        elif kind == "strings":
            index = [f"r{(i * 7) % 23}_{i}" for i in draw(st.permutations(list(range(n))))]
        elif kind == "nonunique":
            index = draw(st.lists(st.integers(0, max(1, n // 2)), min_size=n, max_size=n))
        elif kind == "float":
            index = [float(v) / 2 for v in draw(st.permutations(list(range(10, 10 + n))))]
        elif kind == "offset":
            index = list(range(5, 5 + n))
        return {"n": n, "cols": cols, "index": index}

    return strat()


def build(case, keep=None):
    """Build the pandas DataFrame for a frame case."""
    import numpy as np
    import pandas as pd

    data = {}
    for name, col in case["cols"].items():
        if keep is not None and name not in keep:
            continue
        dt, vals = col["dtype"], col["values"]
        if dt == "float64":
            data[name] = np.array([np.nan if v is None else float(v) for v in vals], dtype="float64")
        elif dt in ("int64", "int32", "int8", "uint8", "uint16", "float32", "int16", "uint32", "uint64"):
            data[name] = np.array(vals, dtype=dt)
        elif dt == "Int64":
            data[name] = pd.array(vals, dtype="Int64")
        elif dt == "bool":
            data[name] = np.array(vals, dtype=bool)
        elif dt == "object":
            data[name] = pd.Series(vals, dtype=object)
        elif dt == "str":
            data[name] = pd.Series(vals, dtype="str")
        elif dt == "string":
            data[name] = pd.Series(vals, dtype="string")
        elif dt == "string[pyarrow]":
            data[name] = pd.Series(vals, dtype="string[pyarrow]")
        elif dt == "category":
            data[name] = pd.Categorical(vals, categories=col["categories"])
        else:
            raise ValueError(dt)
    df = pd.DataFrame(data)
    if case.get("index") is not None:
        df.index = pd.Index(case["index"])
    return df


def take_rows(case, rows):
    """Frame case restricted / reordered to the given row positions."""
    out = {"n": len(rows), "cols": {}, "index": None if case.get("index") is None else [case["index"][i] for i in rows]}
    for name, col in case["cols"].items():
        c = dict(col)
        c["values"] = [col["values"][i] for i in rows]
        out["cols"][name] = c
    return out


# ------------------------------------------------------------------ formulas

PY_FNS = {
    "add1": ("I({0} + 1)", "I({0} + 1)", 1),
    "brace_add1": ("{{{0} + 1}}", "{0} + 1", 1),
    "mul": ("I({0} * {1})", "I({0} * {1})", 2),
    "exp": ("np.exp({0})", "np.exp({0})", 1),
    "sq": ("{{{0} ** 2}}", "{0} ** 2", 1),
    "neg": ("I(-{0})", "I(-{0})", 1),
    # evaluates to a plain 1-D numpy array (not a Series)
    "arr": ("np.asarray({0}, dtype=float)", "np.asarray({0}, dtype=float)", 1),
    "stack": ("np.stack([{0}, {1}], axis=1)", "np.stack([{0}, {1}], axis=1)", 2),
    # not row-wise, and it *creates* a missing value (first row); only used where no reference encoding is needed (C07)
    "lag": ("lag({0})", "lag({0})", 1),
}


def qname(col):
    return col if col.isidentifier() else "`" + col + "`"


def factor_src(f):
    """(formula spelling, library-side normalised expression) of a factor."""
    k = f["k"]
    if k in ("num", "cat"):
        return qname(f["col"]), f["col"]
    if k == "C":
        lv = f", levels={f['levels']!r}" if f.get("levels") else ""
        if f.get("contrast"):
            e = f"C({qname(f['col'])}, {RC.expr(f['contrast'])}{lv})"
        else:
            e = f"C({qname(f['col'])}{lv})"
        return e, e
    if k == "py":
        src, norm, _ = PY_FNS[f["fn"]]
        cols = [qname(c) for c in f["cols"]]
        return src.format(*cols), norm.format(*cols)
    if k == "lit":
        return f["v"], f["v"]
    if k == "polyraw":
        e = f"poly({qname(f['col'])}, {f['deg']}, raw=True)"
        return e, e
    if k == "hashed":
        e = f"hashed({qname(f['col'])}, levels={f['levels']})"
        return e, e
    if k == "st":
        e = f"{f['fn']}({qname(f['col'])})"
        return e, e
    if k == "ctx":
        # an expression over objects the caller supplies through the context (not data columns)
        return f["src"], f["src"]
    if k == "bsK":
        e = f"bs({qname(f['col'])}, knots=K, degree=1, extrapolation='extend')"
        return e, e
    raise ValueError(k)


def term_degree(term):
    return sum(1 for f in term if f["k"] != "lit")


def normalize_terms(terms):
    """Remove duplicate factors within terms and duplicate terms (same non-literal factor set); sort by degree (stable)."""
    out, seen = [], set()
    for t in terms:
        fs, names = [], set()
        for f in t:
            nm = factor_src(f)[1]
            if nm not in names:
                names.add(nm)
                fs.append(f)
        key = frozenset(factor_src(f)[1] for f in fs if f["k"] != "lit")
        if not key or key in seen:
            continue
        seen.add(key)
        out.append(fs)
    return sorted(out, key=term_degree)


def formula_string(fc):
    parts = [":".join(factor_src(f)[0] for f in t) for t in fc["terms"]]
    body = " + ".join(parts)
    if fc["intercept"]:
        return body if body else "1"
    return ("0 + " + body) if body else "0"


def factors(cat_cols=CAT_COLS, num_cols=NUM_COLS, contrasts=True, py=True, literals=True, polyraw=True):
    opts = [
        st.sampled_from(num_cols).map(lambda c: {"k": "num", "col": c}),
        st.sampled_from(num_cols).map(lambda c: {"k": "num", "col": c}),
        st.sampled_from([c for c in cat_cols if c != "G"]).map(lambda c: {"k": "cat", "col": c}),
        st.sampled_from([c for c in cat_cols if c != "G"]).map(lambda c: {"k": "cat", "col": c}),
        st.sampled_from(cat_cols).map(lambda c: {"k": "C", "col": c, "contrast": None}),
    ]
    if contrasts:
        cs = st.sampled_from(
            [
                {"kind": "treatment"}, {"kind": "SAS"}, {"kind": "sum"}, {"kind": "helmert"},
                {"kind": "helmert", "reverse": False, "scale": True}, {"kind": "diff"},
                {"kind": "diff", "backward": False}, {"kind": "poly"},
            ]
        )
        opts.append(st.tuples(st.sampled_from(cat_cols), cs).map(lambda t: {"k": "C", "col": t[0], "contrast": t[1]}))
        # explicit level lists: the whole pool in reversed order (a superset of what any frame observes)
        opts.append(
            st.tuples(st.sampled_from(cat_cols), st.one_of(st.none(), cs)).map(
                lambda t: {"k": "C", "col": t[0], "contrast": t[1], "levels": list(reversed(CAT_LEVELS[t[0]]))}
            )
        )
    if py:
        # python expressions are only applied to genuinely numeric columns: arithmetic on a boolean column is the
        # dataframe library's business (Arrow has no bool + int kernel, numpy.exp(bool) is float16, ...)
        py_cols = [c for c in num_cols if c != "t"]
        opts.append(
            st.tuples(st.sampled_from(["add1", "brace_add1", "exp", "sq", "neg", "arr"]), st.sampled_from(py_cols)).map(
                lambda t: {"k": "py", "fn": t[0], "cols": [t[1]]}
            )
        )
        opts.append(st.just({"k": "py", "fn": "mul", "cols": ["x", "y"]}))
        opts.append(st.sampled_from([["x", "y"], ["y", "z"], ["z", "x"]]).map(lambda c: {"k": "py", "fn": "stack", "cols": c}))
    if polyraw:
        opts.append(st.tuples(st.sampled_from([c for c in num_cols if c != "t"]), st.integers(1, 3)).map(lambda t: {"k": "polyraw", "col": t[0], "deg": t[1]}))
    return st.one_of(*opts)


def formulas(max_terms=4, max_factors=3, literals=True, **kw):
    f = factors(**kw)
    lit = st.sampled_from(["2.5", "2", "0.5", "3"]).map(lambda v: {"k": "lit", "v": v})

    @st.composite
    def strat(draw):
        nterms = draw(st.integers(1, max_terms))
        terms = []
        for _ in range(nterms):
            fs = draw(st.lists(f, min_size=1, max_size=max_factors))
            if literals and draw(st.integers(0, 5)) == 0:
                pos = draw(st.integers(0, len(fs)))
                fs = fs[:pos] + [draw(lit)] + fs[pos:]
            terms.append(fs)
        return {"intercept": draw(st.booleans()), "terms": normalize_terms(terms)}

    return strat()


def rename_col(obj, old, new):
    """Rename a data column throughout a case (frame cases, formula cases, mutations); returns a deep copy."""
    import copy

    obj = copy.deepcopy(obj)

    def walk(o):
        if isinstance(o, dict):
            if "cols" in o and isinstance(o["cols"], dict) and old in o["cols"]:
                o["cols"] = {(new if k == old else k): v for k, v in o["cols"].items()}
            if o.get("col") == old:
                o["col"] = new
            if isinstance(o.get("cols"), list):
                o["cols"] = [new if c == old else c for c in o["cols"]]
            for v in o.values():
                walk(v)
        elif isinstance(o, list):
            for v in o:
                walk(v)

    walk(obj)
    return obj
