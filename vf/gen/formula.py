"""
G-formula: Hypothesis strategy over formula ASTs + renderer to strings.

Tree encoding (JSON lists):
  ["n", name]                 bare name token
  ["q", text]                 backtick-quoted name
  ["c", text, [vars]]         call-style python token (text already in ast.unparse form)
  ["p", text, [vars]]         {python} block (text already in ast.unparse form)
  ["1"] / ["0"]               literals
  ["num", "2.5"]              numeric literal (only generated as left operand of ":" scaling)
  ["()", e] / ["[]", e]       grouping
  ["b", op, l, r]             binary: + - * / : %in%
  ["^", e, k, spelling]       power, spelling in {"**", "^"}
  ["u", run, e]               unary sign run ("-", "+", "--", "+-", ...)
  ["."]                       the dot wildcard
Structural layer: {"lhs": [parts] | None, "rhs": [parts], "tilde": bool}
  (lhs None + tilde True  -> one-sided "~ rhs")

Precedence (docs/guides/grammar.md): ** ^ (500, right) > : (300) > * / %in% (200)
> + - and unary signs (100) > | > ~ ; binary operators left-associative.
"""

from __future__ import annotations

from hypothesis import strategies as st

PREC = {"+": 100, "-": 100, "*": 200, "/": 200, "%in%": 200, ":": 300, "^": 500}
NAMES = ["a", "b", "c", "d", "e", "x.y"]
QNAMES = ["a b", "x|y", "a:b", "b:a", "1z", "a+b", "weird~name", "ü", "(p)", "a:b:c"]
CALLS = [
    ("log(a)", ["a"]),
    ("C(b)", ["b"]),
    ("f(a, b)", ["a", "b"]),
    ("np.exp(c)", ["c"]),
    ("g(d, 'x + y | z')", ["d"]),
    ("h(e)[0]", ["e"]),
    ("k({'x': e, 'y': (1, 2)})", ["e"]),
    ("poly(a, 2)", ["a"]),
]
PYS = [("a + 1", ["a"]), ("b * c", ["b", "c"]), ("d ** 2", ["d"]), ("[e, 'a~b|c'][0]", ["e"])]
NUMS = ["2", "2.5", "0.5", "10", "3."]


def atoms(pool=NAMES, rich=True):
    base = [st.sampled_from(pool).map(lambda n: ["n", n])]
    if rich:
        base += [
            st.sampled_from(QNAMES).map(lambda n: ["q", n]),
            st.sampled_from(CALLS).map(lambda c: ["c", c[0], c[1]]),
            st.sampled_from(PYS).map(lambda c: ["p", c[0], c[1]]),
        ]
    weights = st.one_of(*base) if not rich else st.one_of(base[0], base[0], base[0], *base)
    return weights


def sign_run(parity=None):
    """A run of + and - characters; parity None = any, 0 = plus-like, 1 = minus-like."""
    def ok(r):
        return parity is None or r.count("-") % 2 == parity
    return st.text(alphabet="+-", min_size=1, max_size=4).filter(ok)


def expr(pool=NAMES, rich=True, allow_dot=False, max_leaves=10, allow_unary=True, allow_literals=True):
    atom = atoms(pool, rich)
    if allow_dot:
        atom = st.one_of(atom, atom, atom, st.just(["."]))

    def scaled(a):
        return st.tuples(st.sampled_from(NUMS), a).map(lambda t: ["b", ":", ["num", t[0]], t[1]])

    leaf = st.one_of(atom, atom, atom, atom, scaled(atoms(pool, rich))) if allow_literals else atom
    if rich and "a" in pool and "b" in pool and "c" in pool:
        # a quoted column whose *name* spells an interaction, next to that interaction: two different terms
        ab = ["b", ":", ["n", "a"], ["n", "b"]]
        leaf = st.one_of(
            *([leaf] * 12),
            st.sampled_from(
                [
                    ["b", "+", ["q", "a:b"], ab],
                    ["b", "+", ab, ["q", "a:b"]],
                    ["b", "-", ["b", "*", ["n", "a"], ["n", "b"]], ["q", "a:b"]],
                    ["b", "-", ["b", "+", ["q", "a:b"], ["n", "c"]], ab],
                    ["b", "+", ["b", ":", ["q", "a:b"], ["n", "c"]], ["b", ":", ab, ["n", "c"]]],
                    ["b", "+", ["q", "a:b:c"], ["b", ":", ab, ["n", "c"]]],
                ]
            ),
        )

    def extend(children):
        binop = st.tuples(
            st.sampled_from(["+", "+", "-", "*", "/", ":", ":", "%in%"]), children, children
        ).map(lambda t: ["b", t[0], t[1], t[2]])
        power = st.tuples(children, st.integers(1, 3), st.sampled_from(["**", "^"])).map(
            lambda t: ["^", t[0], t[1], t[2]]
        )
        group = st.tuples(st.sampled_from(["()", "()", "()", "[]"]), children).map(lambda t: [t[0], t[1]])
        opts = [binop, binop, binop, power, group]
        if allow_literals:
            # 1 / 0 as the right operand of + or -
            lit = st.tuples(st.sampled_from(["+", "-"]), children, st.sampled_from([["1"], ["0"]])).map(
                lambda t: ["b", t[0], t[1], t[2]]
            )
            # literal leading a sum
            lit2 = st.tuples(st.sampled_from(["+", "-"]), st.sampled_from([["1"], ["0"]]), children).map(
                lambda t: ["b", t[0], t[1], t[2]]
            )
            opts += [lit, lit2]
        if allow_unary:
            un = st.tuples(sign_run(), children).map(lambda t: ["u", t[0], t[1]])
            opts.append(un)
        return st.one_of(*opts)

    return st.recursive(leaf, extend, max_leaves=max_leaves)


def structured(pool=NAMES, rich=True, allow_dot=False, max_leaves=8, **kw):
    e = expr(pool, rich, allow_dot=False, max_leaves=max_leaves, **kw)
    er = expr(pool, rich, allow_dot=allow_dot, max_leaves=max_leaves, **kw)
    parts_l = st.lists(e, min_size=1, max_size=2)
    parts_r = st.lists(er, min_size=1, max_size=3)
    return st.one_of(
        st.builds(lambda r: {"lhs": None, "rhs": [r], "tilde": False}, er),
        st.builds(lambda r: {"lhs": None, "rhs": [r], "tilde": False}, er),
        st.builds(lambda r: {"lhs": None, "rhs": [r], "tilde": True}, er),
        st.builds(lambda r: {"lhs": None, "rhs": r, "tilde": False}, parts_r),
        st.builds(lambda l, r: {"lhs": [l], "rhs": [r], "tilde": True}, e, er),
        st.builds(lambda l, r: {"lhs": [l], "rhs": [r], "tilde": True}, e, er),
        st.builds(lambda l, r: {"lhs": l, "rhs": r, "tilde": True}, parts_l, parts_r),
    )


# --------------------------------------------------------------------------
# Rendering
# --------------------------------------------------------------------------


def _binary_spelling(op, spell):
    """Binary + / - can be spelled with any sign run of the right parity."""
    if op in "+-" and spell:
        return spell
    return op


def tokens_of(node, parent_prec=0, side=None, spells=None):
    """
    Render to a token list with the minimal parentheses the documented grammar
    needs.  `spells` is an iterator of alternative sign-run spellings for binary
    +/- (or None).
    """
    k = node[0]
    if k == "n":
        return [node[1]]
    if k == "q":
        return ["`" + node[1] + "`"]
    if k == "c":
        return [node[1]]
    if k == "p":
        return ["{" + node[1] + "}"]
    if k in ("1", "0"):
        return [k]
    if k == "num":
        return [node[1]]
    if k == ".":
        return ["."]
    if k in ("()", "[]"):
        return [k[0]] + tokens_of(node[1], 0, None, spells) + [k[1]]
    if k == "b":
        op = node[1]
        p = PREC[op]
        left = tokens_of(node[2], p, "l", spells)
        right = tokens_of(node[3], p, "r", spells)
        sp = op
        if op in "+-" and spells is not None:
            alt = next(spells, None)
            if alt:
                # keep parity: build run whose minus-count parity equals op
                sp = alt if (alt.count("-") % 2 == (1 if op == "-" else 0)) else alt + "-"
        toks = left + [sp] + right
        need = p < parent_prec or (p == parent_prec and side == "r")
        return ["("] + toks + [")"] if need else toks
    if k == "^":
        base = tokens_of(node[1], 500, "l", spells)
        toks = base + [node[3], str(node[2])]
        # right-assoc: a power as the *left* operand of a power needs parens
        need = 500 < parent_prec or (parent_prec == 500 and side == "l")
        return ["("] + toks + [")"] if need else toks
    if k == "u":
        p = 100
        inner = tokens_of(node[2], p, "r", spells)  # operand binds tighter than + -
        toks = [node[1]] + inner
        # a unary in any non-leading position must be parenthesised, otherwise
        # the sign run would merge with the preceding operator
        need = p < parent_prec or side == "r"
        return ["("] + toks + [")"] if need else toks
    raise ValueError(node)


def tokens_structured(s, spells=None):
    toks = []
    if s["lhs"]:
        for i, part in enumerate(s["lhs"]):
            if i:
                toks.append("|")
            toks += tokens_of(part, 0, None, spells)
    if s["tilde"]:
        toks.append("~")
    for i, part in enumerate(s["rhs"]):
        if i:
            toks.append("|")
        toks += tokens_of(part, 0, None, spells)
    return toks


WS = ["", " ", "  ", "\t", "\n", " \t "]


def join(tokens, ws=()):
    """Join tokens, inserting whitespace chosen cyclically from `ws` (list of ints)."""
    if not ws:
        # minimal: a single space where two word-ish tokens would otherwise fuse
        out = []
        for i, t in enumerate(tokens):
            if i and _fuses(tokens[i - 1], t):
                out.append(" ")
            out.append(t)
        return "".join(out)
    out = []
    for i, t in enumerate(tokens):
        if i:
            w = WS[ws[(i - 1) % len(ws)] % len(WS)]
            if not w and _fuses(tokens[i - 1], t):
                w = " "
            out.append(w)
        out.append(t)
    lead = WS[ws[-1] % len(WS)] if len(ws) > 2 else ""
    return lead + "".join(out)


def _wordish(c):
    return c.isalnum() or c in "._"


def _fuses(a, b):
    """Would writing a and b with no space change tokenisation?"""
    if not a or not b:
        return False
    x, y = a[-1], b[0]
    if _wordish(x) and _wordish(y):
        return True
    # name/call followed by "(" or "[" becomes a call / subscript
    if (_wordish(x) or x in ")]") and y in "([" and not _is_op(a):
        return True
    # operator characters fuse into a single operator token (e.g. "*" "*" or ":" "-");
    # sign runs are *meant* to fuse with neighbouring +/-; other operators must not.
    if _is_op(a) and _is_op(b):
        return True
    # % starts a quoted operator, fine. A closing ')' of a call followed by '[' handled above.
    return False


def _is_op(t):
    return all((not _wordish(c)) and c not in "()[]{}`'\"" and not c.isspace() for c in t) and t != ""
