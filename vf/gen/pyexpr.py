"""
Generated Python expressions (as source strings, valid by construction) for use
inside {…} blocks and call-style factors.

pyexpr(names) -> strategy of (source, set_of_free_names)
The source is *not* normalised; ast.unparse(ast.parse(src)) gives the library's
expected normal form.
"""

from __future__ import annotations

from hypothesis import strategies as st

FUNCS = ["f", "g", "np.log", "h"]
STRS = ["'a+b'", '"x~y|z"', "'it''s'", "'(('", '"]}"', "'`'", "'a:b'", '"%in%"', "' '", "''", "'a b'", "'a  b'", '"a\tb"', "'a   b'"]
NUMS = ["0", "1", "2.5", "10", "1e3", "0x10", "1_000", "3j", ".5"]


def pyexpr(names=("a", "b", "c"), max_leaves=6, allow_braces=True, allow_backticks=False, quoted=("a b", "x|y")):
    name = st.sampled_from(list(names)).map(lambda n: (n, frozenset([n])))
    leafs = [name, name, name, st.sampled_from(NUMS).map(lambda s: (s, frozenset())), st.sampled_from(STRS).map(lambda s: (s, frozenset()))]
    if allow_backticks:
        leafs.append(st.sampled_from(list(quoted)).map(lambda q: ("`" + q + "`", frozenset([q]))))
    leaf = st.one_of(*leafs)

    def extend(ch):
        def two(fmt):
            return st.tuples(ch, ch).map(lambda t: (fmt.format(t[0][0], t[1][0]), t[0][1] | t[1][1]))

        def one(fmt):
            return ch.map(lambda t: (fmt.format(t[0]), t[1]))

        opts = [
            st.tuples(st.sampled_from(["+", "-", "*", "/", "**", "%", "//", "&", "|", "^", "<<", "@"]), ch, ch, st.sampled_from(["", " ", "  "])).map(
                lambda t: (f"{t[1][0]}{t[3]}{t[0]}{t[3]}{t[2][0]}", t[1][1] | t[2][1])
            ),
            st.tuples(st.sampled_from(["<", ">=", "==", "!=", " in ", " is not "]), ch, ch).map(lambda t: (f"({t[1][0]}{t[0]}{t[2][0]})", t[1][1] | t[2][1])),
            two("({0} and {1})"),
            two("({0} or {1})"),
            one("(not {0})"),
            one("-{0}"),
            one("~{0}"),
            one("({0})"),
            one("(({0}))"),
            st.tuples(st.sampled_from(FUNCS), st.lists(ch, min_size=0, max_size=3), st.sampled_from([", ", ",", " , "])).map(
                lambda t: (f"{t[0]}({t[2].join(a[0] for a in t[1])})", frozenset().union(*[a[1] for a in t[1]]) if t[1] else frozenset())
            ),
            st.tuples(ch, ch).map(lambda t: (f"f({t[0][0]}, key={t[1][0]})", t[0][1] | t[1][1])),
            st.tuples(ch, ch).map(lambda t: (f"f(*[{t[0][0]}], **dict(k={t[1][0]}))", t[0][1] | t[1][1])),
            two("{0}[{1}]"),
            two("{0}[{1}:]"),
            one("{0}[::2]"),
            one("({0}).real"),
            one("({0}).clip(0)"),
            two("[{0}, {1}]"),
            two("({0}, {1})"),
            one("[{0}]"),
            one("({0},)"),
            st.tuples(ch, ch, ch).map(lambda t: (f"({t[0][0]} if {t[1][0]} else {t[2][0]})", t[0][1] | t[1][1] | t[2][1])),
            two("f({0})({1})"),
            two("fs[0]({0}, {1})"),
            one("d['k']({0})"),
            one("(f or g)({0})"),
            one("(lambda q: q + {0})(1)"),
            one("[q for q in {0}]"),
            one("[q for q in {0} if q]"),
        ]
        if allow_braces:
            opts += [two("{{{0}: {1}}}"), two("{{{0}, {1}}}"), one("{{q: q for q in {0}}}"), one("{{'k': {0}}}['k']")]
        return st.one_of(*opts)

    return st.recursive(leaf, extend, max_leaves=max_leaves)


def respace(src, seed):
    """A cheap formatting variation that keeps the Python meaning: spaces after commas / around binary operators
    outside string literals, plus redundant outer parentheses."""
    out, q, i = [], None, 0
    k = seed
    while i < len(src):
        ch = src[i]
        if q:
            out.append(ch)
            if ch == "\\":
                i += 1
                if i < len(src):
                    out.append(src[i])
            elif ch == q:
                q = None
            i += 1
            continue
        if ch in "'\"":
            q = ch
            out.append(ch)
        elif ch == "`":
            j = src.index("`", i + 1)
            out.append(src[i : j + 1])
            i = j
        elif ch == ",":
            out.append("," + " " * (k % 3))
            k = k // 3 + 7
        elif ch == " ":
            # collapse or stretch runs of spaces (never remove the separation between two word characters)
            prev = "".join(out[-3:])[-1:]
            nxt = src[i + 1] if i + 1 < len(src) else ""
            if (prev.isalnum() or prev == "_") and (nxt.isalnum() or nxt == "_"):
                out.append(" " * (1 + k % 2))
            else:
                out.append(" " * (k % 2))
            k = k // 2 + 5
        elif ch in "([" and k % 5 == 0:
            out.append(ch + " ")
            k = k // 5 + 3
        else:
            out.append(ch)
        i += 1
    res = "".join(out)
    return res
