"""
C10 - model-spec metadata indexes the generated columns truthfully.
"""

from __future__ import annotations

import numpy as np
from hypothesis import strategies as st

from ..core import Campaign, Outcome
from ..gen import frames as F
from ..ref import encode as E
from .C02 import dense

RULE = (
    "C02's (frame, formula, options) cases biased toward interactions whose factor names are not alphabetical, "
    "one-level factors (zero-column terms), multi-column transforms and non-identifier column names; outputs "
    "pandas/numpy/sparse. Oracle: column_names == matrix labels; term_indices contiguous/disjoint/increasing/covering; "
    "each term's claimed positions carry labels whose factor pieces are exactly that term's factors (independent "
    "label parse); term_slices/get_slice/get_term_indices agree for lookups by Term object and by printed form; "
    "column lookups by name; variable_indices[v] == union of the positions of the terms the generator knows use v; "
    "subset(S) (Term objects and strings, default and 'none' ordering) regenerates exactly the parent's columns. "
    "Campaign data-dependent-column-order: a caller transform returning one indicator column per value in order of first "
    "appearance, spec re-used on a row permutation of the training data: names as recorded, every position holds the "
    "values its name denotes (non-trivial = the first-appearance order changed). "
    "Non-trivial = >=2 terms with >=1 interaction or multi-column factor; distinct by (formula, frame, options)."
)
ASSUMPTIONS = [
    "values of the parent matrix are tied to their labels by C02; here only positions/names/lookups are judged",
    "lookups by printed form are tried for every term; terms whose printed factor order is not sorted are a labelled class",
]


def base_factor(piece):
    """'C(A, contr.sum())[S.a]' -> 'C(A, contr.sum())' ; 'x' -> 'x'"""
    if piece.endswith("]"):
        depth = 0
        for i in range(len(piece) - 1, -1, -1):
            if piece[i] == "]":
                depth += 1
            elif piece[i] == "[":
                depth -= 1
                if depth == 0:
                    return piece[:i]
    return piece


def check_case(case) -> Outcome:
    from ..libio import model_matrix

    out = Outcome()
    odd = []
    if case.get("rename") == "x":
        # a numeric data column that happens to be called like the generated intercept column: two columns share a name
        case = F.rename_col({k: v for k, v in case.items() if k != "rename"}, "x", "Intercept")
        out.label("column-named-Intercept")
    elif case.get("rename"):
        # a categorical column whose (quoted) name contains the interaction operator
        case = F.rename_col({k: v for k, v in case.items() if k != "rename"}, case["rename"], "s:t")
        odd = ["s:t"]
        out.label("quoted-colon-name")
    fr, fc, efr, output = case["frame"], case["formula"], case["efr"], case["output"]
    df = F.build(fr)
    s = F.formula_string(fc)
    ckw = {"cluster_by": "numerical_factors"} if case.get("cluster") else {}
    if ckw:
        out.label("cluster_by")
    mm = model_matrix(s, df, ensure_full_rank=efr, output=output, **ckw)
    spec = mm.model_spec
    M = dense(mm).reshape(fr["n"], -1)
    ncols = M.shape[1]
    names = list(spec.column_names)
    feat = dict(output=output, efr=efr)
    out.label("out:" + output, "efr" if efr else "no-efr")
    out.nontrivial = len(fc["terms"]) >= 2 and any(F.term_degree(t) >= 2 or any(f["k"] == "polyraw" for f in t) for t in fc["terms"])
    if len(names) != ncols:
        out.fail("column-names-length", f"{s!r}: {len(names)} names for {ncols} columns", **feat)
        return out
    if output == "pandas" and list(mm.columns) != names:
        out.fail("column-names-vs-labels", f"{s!r}: {names} vs {list(mm.columns)}", **feat)
    if len(set(names)) != len(names):
        out.label("duplicate-column-names")
    terms = list(spec.formula)
    # expected factor sets per term, from the generator
    exp_terms = ([[]] if fc["intercept"] else []) + [[F.factor_src(f)[1] for f in t if f["k"] != "lit"] for t in fc["terms"]]
    lib_terms = [[f.expr for f in t.factors if f.eval_method.value != "literal"] for t in terms]
    if [frozenset(t) for t in lib_terms] != [frozenset(t) for t in exp_terms]:
        out.fail("terms-vs-formula", f"{s!r}: spec terms {lib_terms} vs formula {exp_terms}", **feat)
        return out
    ti = spec.term_indices
    walk = list(zip(terms, lib_terms))
    if ckw:
        # with clustering the columns follow the clustered term order recorded in the structure
        if sorted(map(str, ti.keys())) != sorted(map(str, terms)):
            out.fail("term-indices-order", f"{s!r}: keys {list(ti.keys())} are not the terms {terms}", **feat)
            return out
        lt = dict(zip(terms, lib_terms))
        walk = [(t, lt[t]) for t in ti.keys()]
    elif list(ti.keys()) != terms:
        out.fail("term-indices-order", f"{s!r}: keys {list(ti.keys())} vs terms {terms}", **feat)
    pos = 0
    for t, fset in walk:
        idx = list(ti[t])
        if idx != list(range(pos, pos + len(idx))):
            out.fail("term-indices-contiguous", f"{s!r}: term {t} -> {idx}, expected to start at {pos}", **feat)
            return out
        pos += len(idx)
        if not idx:
            out.label("zero-column-term")
        # independent: labels at those positions mention exactly this term's factors
        for j in idx:
            label = names[j]
            if label == "Intercept" and not fset:
                got = frozenset()
            else:
                got = frozenset(base_factor(p) for p in E.split_label(label, odd))
            # with rank reduction a term may also emit the columns of its missing margins
            # (a sub-product of its factors); without it the label names every factor
            if (got != frozenset(fset)) if not efr else (not got <= frozenset(fset)):
                out.fail("term-positions-vs-labels", f"{s!r}: term {t} claims column {j} labelled {label!r}", **feat)
        sl = spec.term_slices[t]
        want_sl = slice(idx[0], idx[-1] + 1) if idx else None
        if idx and (sl.start, sl.stop) != (want_sl.start, want_sl.stop):
            out.fail("term-slices", f"{s!r}: {t}: {sl} vs {want_sl}", **feat)
        if not idx and list(range(ncols))[sl] != []:
            out.fail("term-slices", f"{s!r}: {t}: zero-column term has slice {sl}", **feat)
        if list(range(ncols))[spec.get_slice(t)] != idx:
            out.fail("get-slice-by-term", f"{s!r}: {t}", **feat)
        # printed form
        printed = str(t)
        srt = [f.expr for f in t.factors] == sorted(f.expr for f in t.factors)
        # "prints unambiguously": every factor is a single formula token (name, number or call), so that the
        # printed term re-parses to the same term
        import re as _re

        plain = all(f.expr in odd or (_re.fullmatch(r"[\w.]+(\(.*\))?", f.expr) and ":" not in f.expr) for f in t.factors)
        if plain:
            if not srt:
                out.label("unsorted-printed-term")
            for how, fn in (
                ("term_indices[str]", lambda: list(spec.term_indices[printed])),
                ("term_slices[str]", lambda: list(range(ncols))[spec.term_slices[printed]]),
                ("get_slice(str)", lambda: list(range(ncols))[spec.get_slice(printed)]),
                ("get_term_indices([str])", lambda: list(spec.get_term_indices([printed]))),
            ):
                try:
                    got = fn()
                except (KeyError, ValueError) as e:
                    if printed in names and how == "get_slice(str)":
                        continue
                    out.fail("term-lookup-by-printed-form", f"{s!r}: {how} with {printed!r} raised {type(e).__name__}: {str(e)[:100]}", sorted=srt, how=how)
                    continue
                if got != idx and not (printed in names):
                    out.fail("term-lookup-by-printed-form", f"{s!r}: {how} with {printed!r} -> {got}, expected {idx}", sorted=srt, how=how)
    if pos != ncols:
        out.fail("term-indices-cover", f"{s!r}: terms cover {pos} of {ncols} columns", **feat)
    # columns by name
    if len(set(names)) == len(names):
        for j, c in enumerate(names):
            if spec.column_indices[c] != j or spec.get_column_indices(c) != [j] or spec.get_column_indices([c]) != [j]:
                out.fail("column-indices", f"{s!r}: {c!r}", **feat)
            term_strs = [str(t) for t in terms]
            if c not in term_strs:
                sl = spec.get_slice(c)
                if list(range(ncols))[sl] != [j]:
                    out.fail("get-slice-by-column", f"{s!r}: {c!r} -> {sl}", **feat)
            if list(range(ncols))[spec.get_slice(j)] != [j]:
                out.fail("get-slice-by-int", f"{s!r}: {j}", **feat)
    # variables
    used = {}
    start = 1 if fc["intercept"] else 0
    for k, t in enumerate(fc["terms"]):
        for f in t:
            for v in ([f["col"]] if "col" in f else f.get("cols", [])):
                used.setdefault(v, set()).update(ti[terms[start + k]])
    vi = spec.variable_indices
    for v in fr["cols"]:
        exp = sorted(used.get(v, set()))
        got = list(vi.get(v, []))
        if v in used and v not in vi:
            out.fail("variable-indices", f"{s!r}: variable {v!r} is used by the formula but has no entry in variable_indices (its terms emit {exp})", **feat)
        if v in used:
            try:
                both_ = list(spec.get_variable_indices([v] + [w for w in used if w != v][:1]))
            except KeyError as e:
                out.fail("get-variable-indices", f"{s!r}: get_variable_indices with {v!r} raised KeyError({e})", **feat)
        if got != exp:
            out.fail("variable-indices", f"{s!r}: variable {v!r}: {got} vs {exp}", **feat)
        if exp and list(spec.get_variable_indices([v])) != exp:
            out.fail("get-variable-indices", f"{s!r}: {v!r}", **feat)
    # subsets
    for pick, ordering in case["subsets"]:
        S = [terms[i % len(terms)] for i in pick] if terms else []
        S = list(dict.fromkeys(S))
        if not S:
            continue
        if ordering == "none":
            sub = spec.subset(S, ordering="none")
            order = S
        else:
            sub = spec.subset(S)
            order = sorted(S, key=lambda t: t.degree)
        exp_idx = [j for t in order for j in ti[t]]
        mm2 = sub.get_model_matrix(df)
        M2 = dense(mm2).reshape(fr["n"], -1)
        if list(sub.column_names) != [names[j] for j in exp_idx]:
            out.fail("subset-names", f"{s!r}: subset {order}: {list(sub.column_names)} vs {[names[j] for j in exp_idx]}", ordering=ordering)
        elif M2.shape != (fr["n"], len(exp_idx)) or not np.allclose(M2, M[:, exp_idx], rtol=1e-12, atol=1e-12, equal_nan=True):
            out.fail("subset-values", f"{s!r}: subset {order}", ordering=ordering)
        # the subset carries the recorded levels: on rows that lack some levels it still reproduces the parent's cells
        rows = sorted({r % fr["n"] for r in pick})[:2]
        try:
            M3 = dense(sub.get_model_matrix(df.iloc[rows])).reshape(len(rows), -1)
            if M3.shape != (len(rows), len(exp_idx)) or not np.allclose(M3, M[rows][:, exp_idx], rtol=1e-9, atol=1e-9, equal_nan=True):
                out.fail("subset-on-fewer-rows", f"{s!r}: subset {order} on rows {rows}: {M3.tolist()} vs parent cells {M[rows][:, exp_idx].tolist()}", ordering=ordering)
        except Exception as e:
            out.fail("subset-on-fewer-rows", f"{s!r}: subset {order} on rows {rows}: {type(e).__name__}: {str(e)[:150]}", ordering=ordering)
        if list(spec.get_term_indices(S, ordering="none")) != [j for t in S for j in ti[t]]:
            out.fail("get-term-indices", f"{s!r}: {S}", ordering="none")
        # metadata of the subset is about the subset
        pos2 = 0
        for t in order:
            idx2 = list(sub.term_indices[t])
            if idx2 != list(range(pos2, pos2 + len(ti[t]))):
                out.fail("subset-term-indices", f"{s!r}: subset {order}: {t} -> {idx2}", ordering=ordering)
            pos2 += len(ti[t])
    return out


def gen(max_rows=10):
    # frames with one-level factors made common, formulas with reversed-order interactions
    fc = F.formulas(max_terms=5, max_factors=3)

    def swap(fcase, flag):
        if flag:
            fcase = {"intercept": fcase["intercept"], "terms": [list(reversed(t)) for t in fcase["terms"]]}
        return fcase

    return st.builds(
        lambda fr, f, flag, efr, o, subs, rn, cl: {"frame": fr, "formula": swap(f, flag), "efr": efr, "output": o, "subsets": subs, "rename": rn, "cluster": cl},
        F.frame(max_rows=max_rows, odd_names=False),
        fc,
        st.booleans(),
        st.sampled_from([True, True, False]),
        st.sampled_from(["pandas", "numpy", "sparse"]),
        st.lists(st.tuples(st.lists(st.integers(0, 6), min_size=1, max_size=4), st.sampled_from(["degree", "none"])), max_size=2),
        st.sampled_from([None, None, None, "A", "B", "x"]),
        st.sampled_from([False, False, True]),
    )


# ---- a multi-column factor whose column order depends on the data -------------------------------------------------
REORDER_FORMULAS = ["oh(A)", "oh(A) + x", "x + oh(A):x", "oh(A) + oh(A):x", "x:oh(A) + oh(A)", "oh(A):oh(B)", "oh(B) + x:oh(A)"]


def check_reorder(case) -> Outcome:
    """The caller's transform `oh` returns one indicator column per value *in order of first appearance*; a spec
    re-used on other data (same values, other row order) must still describe the columns it hands back: names as
    recorded, and under every recorded name / position the values that name denotes."""
    import pandas as pd
    from ..libio import model_matrix

    out = Outcome()
    n = len(case["A"])
    df1 = pd.DataFrame({"A": case["A"], "B": case["B"], "x": [1.0 + 0.5 * i for i in range(n)]})
    order = sorted(range(n), key=lambda i: case["perm"][i])  # a permutation of the rows
    df2 = df1.iloc[order].reset_index(drop=True)
    if set(df2["A"]) != set(df1["A"]) or set(df2["B"]) != set(df1["B"]):
        out.rejected = True  # other values -> other columns: the library rightly refuses (not this relation)
        return out
    ctx = {"oh": lambda v: {str(k): (np.asarray(v) == k).astype(float) for k in pd.unique(v)}}
    s = ("" if case["intercept"] else "0 + ") + REORDER_FORMULAS[case["formula"] % len(REORDER_FORMULAS)]
    output = case["output"]
    feat = dict(output=output, reorder=True)
    mm1 = model_matrix(s, df1, context=ctx, output=output, ensure_full_rank=case["efr"])
    spec = mm1.model_spec
    names = list(spec.column_names)
    first = {c: list(pd.unique(df[c])) for c, df in (("A1", df1[["A"]].rename(columns={"A": "A1"})), ("A2", df2[["A"]].rename(columns={"A": "A2"})))}
    out.nontrivial = first["A1"] != first["A2"]
    out.label("out:" + output, "order-changed" if out.nontrivial else "order-kept")
    mm2 = spec.get_model_matrix(df2, context=ctx)
    if list(mm2.model_spec.column_names) != names:
        out.fail("reused-spec-column-names", f"{s!r}: {list(mm2.model_spec.column_names)} vs {names}", **feat)
        return out
    if output == "pandas" and list(mm2.columns) != names:
        out.fail("column-names-vs-labels", f"{s!r} re-used on rows {order}: labels {list(mm2.columns)} vs recorded names {names}", **feat)
        return out
    M = dense(mm2).reshape(len(df2), -1)
    if M.shape[1] != len(names):
        out.fail("column-names-length", f"{s!r} re-used: {M.shape[1]} columns for {len(names)} names", **feat)
        return out

    def piece(p):
        if p == "Intercept":
            return np.ones(len(df2))
        if p == "x":
            return df2["x"].to_numpy()
        col, lvl = p[3], p[6:-1]  # 'oh(A)[a]'
        return (df2[col].to_numpy() == lvl).astype(float)

    for j, name in enumerate(names):
        exp = np.prod([piece(p) for p in name.split(":")], axis=0)
        if not np.allclose(M[:, j], exp):
            out.fail("position-holds-named-column", f"{s!r} trained on A={case['A']}, re-used on rows {order} ({output}): position {j} named {name!r} holds {M[:, j].tolist()}, the name denotes {exp.tolist()}", **feat)
            break
    for t, sl in spec.term_slices.items():
        want = {f.expr for f in t.factors}
        for name in names[sl]:
            got = {base_factor(p) for p in name.split(":")} - {"Intercept"}
            if not got <= want:
                out.fail("term-positions-vs-labels", f"{s!r}: term {t} slice {sl} contains {name!r}", **feat)
    return out


def gen_reorder():
    lv = st.lists(st.sampled_from(["a", "b", "c", "d"]), min_size=3, max_size=8)
    return st.builds(
        lambda A, B, perm, f, i, o, e: {"A": A, "B": (B * 8)[: len(A)], "perm": list(perm), "formula": f, "intercept": i, "output": o, "efr": e},
        lv, st.lists(st.sampled_from(["u", "v", "w"]), min_size=2, max_size=8), st.permutations(list(range(8))),
        st.integers(0, 20), st.booleans(), st.sampled_from(["pandas", "numpy", "sparse"]), st.booleans(),
    )


BUDGET_S = {"quick": 90, "thorough": 1500}


def campaigns(tier, shard=0, nshards=1):
    return [
        Campaign("metadata", gen(10 if tier == "quick" else 20), check_case, 900 if tier == "quick" else 8000),
        Campaign("data-dependent-column-order", gen_reorder(), check_reorder, 400 if tier == "quick" else 4000),
    ]
