"""
C15 - lexing is whitespace-insensitive, quote-faithful and normalises Python code.
"""

from __future__ import annotations

import ast
import re

import numpy as np
from hypothesis import strategies as st

from ..core import Campaign, Outcome
from ..gen import formula as G
from ..gen import pyexpr as P
from .. import libio

RULE = (
    "Five relations. respace: grammar token lists rendered compactly vs with random spaces/tabs/newlines/unicode "
    "whitespace at every token boundary -> same tokenize (kind,text) sequence, equal Formula and repr. quoted: any "
    "unicode text without a backtick as `name` -> one term, one lookup factor, expr == name, and with data the column's "
    "values; inside python (I(`n`), {`n1` + `n2`}, f(`n1`, `n2`)) each name resolves to its own column (by values). "
    "verbatim: generated python expressions full of string literals with operator/bracket characters as {expr} and "
    "f(expr) -> exactly one python token equal to ast.unparse of the fragment. reformat: two formattings of one "
    "expression -> equal factor expressions / equal formulas. spans: tokenize(s) spans in range, increasing, disjoint, "
    "delimiting the token text. Non-trivial = >=3 re-spaced boundaries / name with operator, bracket, quote, whitespace "
    "or non-ASCII char / fragment with quote or bracket; distinct by (relation, input)."
)
ASSUMPTIONS = [
    "nested braces inside a {...} block are not generated (no escape exists); names containing a backtick are excluded by the statement",
    "for quoted tokens only containment of the raw text in source[start:end+2] is asserted (the closing delimiter is not part of the recorded span)",
    "CPython's ast.unparse defines the normal form of a python fragment",
]

WS_POOL = ["", " ", "  ", "\t", "\n", " \t ", "\r\n", " ", " ", "　", "\x0b", "\x0c"]


def wsjoin(tokens, ws):
    # runs of sign characters are split so that whitespace can also fall between adjacent operator characters
    tokens = [c for t in tokens for c in (list(t) if t and all(ch in "+-" for ch in t) else [t])]
    out = []
    for i, t in enumerate(tokens):
        if i:
            w = WS_POOL[ws[(i - 1) % len(ws)] % len(WS_POOL)] if ws else ""
            signs = lambda x: x != "" and all(ch in "+-" for ch in x)
            # sign characters may (and in the compact rendering do) fuse with neighbouring operator characters:
            # "~-", "+-", ":+" are exactly the adjacent-operator situations whitespace must not influence
            if not w and G._fuses(tokens[i - 1], t) and not (signs(t) and G._is_op(tokens[i - 1])) and not (signs(tokens[i - 1]) and signs(t)):
                w = " "
            out.append(w)
        out.append(t)
    return "".join(out)


def toks(s):
    from formulaic.parser.algos.tokenize import tokenize

    return [(t.kind.value, t.token) for t in tokenize(s)]


def expected_tokens(tokens):
    """What the lexer must produce for a generator token list (independent of the lexer)."""
    out = []
    for t in tokens:
        if t.startswith("`"):
            out.append(("name", t[1:-1]))
        elif t.startswith("{"):
            out.append(("python", t[1:-1]))
        elif t in ("(", ")", "[", "]"):
            out.append(("context", t))
        elif t == "%in%":
            out.append(("operator", "in"))
        elif G._is_op(t):
            if out and out[-1][0] == "operator" and out[-1][1] != "in":
                out[-1] = ("operator", out[-1][1] + t)
            else:
                out.append(("operator", t))
        elif t == ".":
            out.append(("value", "."))  # "." is a numeric character for the raw lexer; sanitize_tokens re-tags it
        elif all(ch.isdigit() or ch == "." for ch in t):
            out.append(("value", t))
        elif "(" in t:
            out.append(("python", t))
        else:
            out.append(("name", t))
    return out


def check_respace(case) -> Outcome:
    from formulaic import Formula
    from formulaic.errors import FormulaParsingError

    out = Outcome()
    tokens = G.tokens_structured(case["tree"], iter(case.get("spells", [])))
    s1 = wsjoin(tokens, [])
    s2 = wsjoin(tokens, case["ws"])
    exp = expected_tokens(tokens)
    if toks(s1) != exp:
        out.fail("lexer-output", f"{s1!r} -> {toks(s1)}\nexpected {exp}")
        return out
    out.nontrivial = len(tokens) >= 4 and s1 != s2
    if any(ord(c) > 127 for c in s2):
        out.label("unicode-whitespace")
    t1, t2 = toks(s1), toks(s2)
    if t1 != t2:
        out.fail("respace-tokens", f"{s1!r} -> {t1}\n{s2!r} -> {t2}", unicode_ws=any(ord(c) > 127 and c.isspace() for c in s2))
        return out
    ctx = {"__formulaic_variables_available__": ["a", "b", "y"]}
    res = []
    for s in (s1, s2):
        try:
            f = Formula(s, _context=ctx)
            res.append(("ok", libio.terms_json(f), repr(f)))
        except FormulaParsingError:
            res.append(("reject", None, None))
    if res[0] != res[1]:
        out.fail("respace-formula", f"{s1!r} -> {res[0][:2]}\n{s2!r} -> {res[1][:2]}")
    out.rejected = res[0][0] == "reject"
    return out


# ---------------------------------------------------------------- quoted names

_ASCII = st.sampled_from(list("ab xy+-*/:^~|()[]{}'\"%.,0123456789_=!$@#&<>?\\;\t") + ["é", "ü", "λ", "名", "😀", " ", "\n"])
NAME_ALPHABET = st.one_of(
    _ASCII, _ASCII, _ASCII, _ASCII, _ASCII, _ASCII,
    # NFKC-stable-ish letters / digits / punctuation / symbols / spaces from the whole of unicode
    st.characters(blacklist_characters="`", whitelist_categories=("Lu", "Ll", "Lo", "Nd", "Pd", "Ps", "Pe", "Po", "Sm", "Sc", "Zs")),
    # and, rarely, anything at all (combining marks, controls, private use ...)
    st.characters(blacklist_characters="`", blacklist_categories=("Cs",)),
)


def names():
    stable = st.characters(blacklist_characters="`", whitelist_categories=("Lu", "Ll", "Lo", "Nd", "Pd", "Ps", "Pe", "Po", "Sm", "Sc", "Zs"))
    anything = st.characters(blacklist_characters="`", blacklist_categories=("Cs",))
    # the choice of alphabet is made per name (not per character), otherwise nearly every name has an exotic character
    return st.one_of(
        st.text(alphabet=_ASCII, min_size=1, max_size=8),
        st.text(alphabet=_ASCII, min_size=1, max_size=8),
        st.text(alphabet=_ASCII, min_size=1, max_size=8),
        st.text(alphabet=st.one_of(_ASCII, stable), min_size=1, max_size=8),
        st.text(alphabet=st.one_of(_ASCII, stable), min_size=1, max_size=8),
        st.text(alphabet=st.one_of(_ASCII, anything), min_size=1, max_size=6),
    ).filter(lambda s: "`" not in s)


def name_class(n):
    c = []
    if n.endswith("\\"):
        c.append("trailing-backslash")
    if "\\" in n:
        c.append("backslash")
    if "'" in n or '"' in n:
        c.append("quote-char")
    if n.isidentifier():
        c.append("identifier")
    return c


def check_quoted(case) -> Outcome:
    import pandas as pd
    from formulaic import Formula
    from ..libio import model_matrix
    from formulaic.errors import FormulaParsingError

    out = Outcome()
    n1, n2, form = case["n1"], case["n2"], case["form"]
    special = lambda n: (not n.isidentifier())
    out.nontrivial = special(n1) or special(n2)
    cls = sorted(set(name_class(n1) + (name_class(n2) if form != "plain" else [])))
    for c in cls:
        out.label("name:" + c)
    import keyword
    from formulaic.transforms import TRANSFORMS

    special = "none"
    for n in (n1,) if form == "plain" else (n1, n2):
        if n == ".":
            special = "dot"
        elif n == "1":
            special = "one"
    if form != "plain" and any(keyword.iskeyword(n) or n in TRANSFORMS or n in ("I",) for n in (n1, n2)):
        # a column called like a python keyword or like the transform the harness itself calls: the data layer
        # legitimately shadows it - not this property's business
        out.label("excluded:keyword-or-transform-name")
        out.nontrivial = False
        return out
    import unicodedata

    def exotic(n):
        # (open finding F18, narrowed in round 7 to what still fails: a name that is a valid identifier - hence not
        # aliased - which CPython normalises to another spelling; names that need an alias, marks and controls work)
        return n.isidentifier() and unicodedata.normalize("NFKC", n) != n

    def unstable(n):
        return unicodedata.normalize("NFKC", n) != n or any(unicodedata.category(ch)[0] in "MC" for ch in n)

    ex = exotic(n1) or (form != "plain" and exotic(n2))
    if ex:
        out.label("name:nfkc-unstable-identifier")
    elif unstable(n1) or (form != "plain" and unstable(n2)):
        out.label("name:nfkc-unstable-or-mark-or-control")
    feat = dict(form=form, trailing_backslash="trailing-backslash" in cls, quote_char="quote-char" in cls, special=special, exotic=ex)
    df = pd.DataFrame({n1: [1.0, 2.0, 4.0], "zz": [10.0, 20.0, 30.0]})
    if n2 != n1:
        df[n2] = [100.0, 300.0, 500.0]
    if form == "plain":
        s = f"`{n1}` - 1"
        try:
            f = Formula(s)
        except (FormulaParsingError, SyntaxError) as e:
            out.fail("quoted-name-rejected", f"{s!r}: {type(e).__name__}: {str(e)[:150]}", **feat)
            return out
        tj = libio.terms_json(f)
        if tj != ["T", [[n1]]]:
            out.fail("quoted-name-term", f"{s!r} -> {tj}", **feat)
            return out
        fac = list(f)[0].factors[0]
        if fac.eval_method.value != "lookup":
            out.fail("quoted-name-lookup", f"{s!r}: eval method {fac.eval_method}", **feat)
        mm = model_matrix(s, df, output="numpy")
        if not np.array_equal(np.asarray(mm, dtype=float).ravel(), df[n1].to_numpy()):
            out.fail("quoted-name-values", f"{s!r}: {np.asarray(mm).tolist()}", **feat)
        return out
    # inside python code
    if form == "I":
        s, exp = f"I(`{n1}`) - 1", df[n1].to_numpy()
    elif form == "brace-sum":
        s, exp = f"{{`{n1}` + 2 * `{n2}`}} - 1", (df[n1] + 2 * df[n2]).to_numpy()
    elif form == "call2":
        s, exp = f"I(`{n1}` - `{n2}` + zz) - 1", (df[n1] - df[n2] + df["zz"]).to_numpy()
    elif form == "mixed":
        s, exp = f"`{n1}`:I(`{n2}` * 2) - 1", (df[n1] * df[n2] * 2).to_numpy()
    else:
        raise ValueError(form)
    try:
        mm = model_matrix(s, df, output="numpy")
    except Exception as e:
        out.fail("quoted-name-in-python", f"{s!r}: {type(e).__name__}: {str(e)[:200]}", **feat)
        return out
    got = np.asarray(mm, dtype=float)
    if got.shape != (3, 1) or not np.allclose(got.ravel(), exp):
        out.fail("quoted-name-in-python-values", f"{s!r}: got {got.tolist()} expected {exp.tolist()}", **feat)
    return out


def _san(n):
    return "".join(ch if re.match(r"\w", ch) else "_" for ch in n)


def _collide(n1, n2):
    a, b = _san(n1), _san(n2)
    return n1 != n2 and (a == b or a.startswith(b) or b.startswith(a))


def gen_quoted():
    nm = st.one_of(names(), names(), st.sampled_from(["a b", "a+b", "a", "ab", "a b c", "x", "max", "a'b", 'q"r', "a\\b", "end\\", "1z", "a:b", "é", "I", "zz ", "l1\r\nl2", "t\tb", "cr\rx", "\uff58+1", "\ufb01 x", "\xb5 m", "1\xaa", "a \u0301b"]))
    return st.builds(lambda a, b, f: {"n1": a, "n2": b, "form": f}, nm, nm, st.sampled_from(["plain", "plain", "I", "brace-sum", "call2", "mixed"])).filter(
        lambda c: c["n1"] != "zz" and c["n2"] != "zz" and (c["form"] == "plain" or c["n1"] != c["n2"])
    )


# ---------------------------------------------------------------- verbatim / reformat


def normal_form(src):
    return ast.unparse(ast.parse(src.strip(), mode="eval")).replace("\n", " ")


def check_verbatim(case) -> Outcome:
    from formulaic import Formula
    from formulaic.parser.algos.tokenize import tokenize
    from formulaic.parser.algos.sanitize_tokens import sanitize_tokens

    out = Outcome()
    src, form = case["src"], case["form"]
    inner = src if form == "brace" else f"f({src})"
    s = ("{" + src + "}") if form == "brace" else inner
    full = f"{s} + zz"
    out.nontrivial = any(c in src for c in "'\"()[]{}")
    out.label("form:" + form)
    try:
        expected = normal_form(inner)
    except SyntaxError:
        out.label("invalid-python-generated")
        return out
    if not case.get("hasname", True):
        # a constant expression such as {1} legitimately coincides with a literal term; not generated on purpose
        out.label("excluded:constant-fragment")
        out.nontrivial = False
        return out
    tk = [(t.kind.value, t.token) for t in sanitize_tokens(tokenize(full))]
    py = [t for t in tk if t[0] == "python"]
    if len(tk) != 3 or len(py) != 1:
        out.fail("verbatim-one-token", f"{full!r} -> {tk}", form=form)
        return out
    if py[0][1] != expected:
        out.fail("verbatim-normal-form", f"{full!r}: token {py[0][1]!r} != ast.unparse {expected!r}", form=form)
    f = Formula(full)
    tj = libio.terms_json(f)
    if tj != ["T", [["1"], [expected], ["zz"]]]:
        out.fail("verbatim-term", f"{full!r} -> {tj}", form=form)
    # second formatting of the same expression
    src2 = P.respace(src, case["seed"])
    inner2 = src2 if form == "brace" else f"f( {src2} )"
    s2 = ("{ " + src2 + " }") if form == "brace" else inner2
    try:
        if normal_form(inner2) != expected:
            out.label("respace-changed-meaning")  # harness limitation, skip
            return out
    except SyntaxError:
        out.label("respace-invalid")
        return out
    f2 = Formula(f"{s2} + zz")
    if libio.terms_json(f2) != tj or not (f2 == f):
        out.fail("reformat-equal-factors", f"{full!r} vs {s2 + ' + zz'!r}: {tj} vs {libio.terms_json(f2)}", form=form)
    # string-literal contents are verbatim: two fragments that differ only in whitespace *inside* a string literal
    # are different factors, each equal to its own normal form (both parsed in this same process)
    if form == "brace":
        va, vb = "{(" + src + ") + 'p q'}", "{(" + src + ") + 'p  q'}"
        ia, ib = "(" + src + ") + 'p q'", "(" + src + ") + 'p  q'"
    else:
        va, vb = f"g({src}, 'p q')", f"g({src}, 'p  q')"
        ia, ib = va, vb
    fa = Formula(f"{va} + {vb}")
    want = ["T", [["1"], [normal_form(ia)], [normal_form(ib)]]]
    if libio.terms_json(fa) != want:
        out.fail("string-contents-verbatim", f"{va!r} + {vb!r} -> {libio.terms_json(fa)}; expected {want}", form=form)
    # a*b with both formattings collapses to one factor (set semantics rely on the normal form)
    f3 = Formula(f"{s} + {s2}")
    if len(f3) != 2:
        out.fail("reformat-set-semantics", f"{s!r} + {s2!r} -> {libio.terms_json(f3)}", form=form)
    return out


def gen_verbatim():
    return st.one_of(
        st.builds(lambda e, k: {"src": e[0], "form": "brace", "seed": k, "hasname": bool(e[1])}, P.pyexpr(allow_braces=False), st.integers(0, 10**6)),
        st.builds(lambda e, k: {"src": e[0], "form": "call", "seed": k, "hasname": True}, P.pyexpr(allow_braces=True), st.integers(0, 10**6)),
        # plain calls over bare words and numbers, written with canonical spacing, whose literals are not in canonical
        # form (0x10, 1_000, 1e3, 0b11, 00.5): still normalised, like every other spelling of the same call
        st.builds(
            lambda args, k: {"src": ", ".join(args), "form": "call", "seed": k, "hasname": True},
            st.lists(st.sampled_from(["a", "b", "x1", "0x10", "1_000", "1e3", "0b11", "2", "0o7", "1E2"]), min_size=1, max_size=3).filter(lambda a: any(x[0].isalpha() for x in a)),
            st.integers(0, 10**6),
        ),
    )


# ---------------------------------------------------------------- spans


def check_spans(case) -> Outcome:
    from formulaic.parser.algos.tokenize import tokenize
    from formulaic.errors import FormulaParsingError

    out = Outcome()
    s = case["s"]
    try:
        tokens = list(tokenize(s))
    except FormulaParsingError as e:
        if case.get("expect") is not None:
            out.fail("well-formed-quotes-rejected", f"{s!r}: {str(e).splitlines()[0][:120]}")
        out.rejected = True
        return out
    if case.get("expect") is not None and [t.token for t in tokens] != case["expect"]:
        out.fail("quoted-token-texts", f"{s!r}: tokens {[t.token for t in tokens]} vs {case['expect']}")
    out.nontrivial = len(tokens) >= 3
    last_end = -1
    for t in tokens:
        a, b = t.source_start, t.source_end
        if a is None or b is None or not (0 <= a <= b < len(s)):
            out.fail("span-in-range", f"{s!r}: token {t.token!r} span {(a, b)}")
            continue
        if a <= last_end:
            out.fail("span-ordered-disjoint", f"{s!r}: token {t.token!r} span {(a, b)} after end {last_end}")
        last_end = b
        raw = s[a : b + 1]
        quoted = s[a] in "`{" or (t.kind.value == "operator" and s[a] == "%")
        if quoted:
            # a quoted token's span runs from its opening quote to its last content character
            close = {"`": "`", "{": "}", "%": "%"}[s[a]]
            if s[a + 1 : b + 1] != t.token or s[b + 1 : b + 2] != close:
                out.fail("span-contains-quoted-text", f"{s!r}: token {t.token!r} span {(a, b)} text {s[a:b+2]!r}")
        else:
            if "".join(raw.split()) != "".join(t.token.split()):
                out.fail("span-delimits-text", f"{s!r}: token {t.token!r} ({t.kind.value}) span text {raw!r}")
        if t.source != s:
            out.fail("span-source", f"{s!r}: token source {t.source!r}")
    # the same through the default parser (which may add tokens of its own, without a source): spans still index
    # the caller's string
    from formulaic.parser import DefaultFormulaParser

    try:
        ptoks = list(DefaultFormulaParser(include_intercept=False).get_tokens(s))
    except (FormulaParsingError, SyntaxError):
        ptoks = []
    for t in ptoks:
        if t.source is None or t.source_start is None or t.source_end is None:
            continue
        a, b = t.source_start, t.source_end
        if t.source != s:
            out.fail("parser-span-source", f"{s!r}: token {t.token!r} refers to another string {t.source!r}")
            break
        raw = s[a : b + 1]
        if t.kind.value == "name" and raw[:1] == "`" and raw[1:] != t.token:
            out.fail("parser-span-text", f"{s!r}: token {t.token!r} span {(a, b)} text {raw!r}")
            break
        if t.kind.value in ("name", "value") and raw[:1] not in "`{" and "".join(raw.split()) != "".join(t.token.split()):
            out.fail("parser-span-text", f"{s!r}: token {t.token!r} span {(a, b)} text {raw!r}")
            break
    # ... and through the parser that adds the implicit intercept (it splits operator runs such as '~ -' to do so):
    # whatever span a piece of a split run records still covers that piece's own characters
    try:
        itoks = list(DefaultFormulaParser(include_intercept=True).get_tokens(s))
    except (FormulaParsingError, SyntaxError):
        itoks = []
    for t in itoks:
        if t.source is None or t.source_start is None or t.source_end is None or t.source != s:
            continue
        raw = s[t.source_start : t.source_end + 1]
        tok_, raw_ = "".join(t.token.split()), "".join(raw.split())
        # (a piece of a split run may keep the span of the whole run, and an operator the parser merged with one of its
        # own has characters that are not in the source at all - but a span never covers only blanks, or only
        # characters the token does not have)
        if t.kind.value == "operator" and raw[:1] != "%" and not (set(tok_) & set(raw_)):
            out.fail("parser-span-text", f"{s!r} (implicit intercept): operator {t.token!r} span {(t.source_start, t.source_end)} covers {raw!r}", split=True)
            break
    return out


def gen_spans():
    from .C14 import gen_alpha, gen_mutated, gen_pyfrag

    # quoted tokens whose content holds escaped characters (also as the last character before the closing quote)
    piece = st.sampled_from(["a", "b c", "\\h", "\\`", "\\}", "\\%", "\\\\", "x", "1", "+", " "])
    body = st.lists(piece, min_size=1, max_size=4).map("".join)
    # (source text, expected token texts)
    quoted = st.one_of(
        body.map(lambda b_: ("`" + b_ + "`", [b_])), body.map(lambda b_: ("{" + b_ + "}", [b_])),
        body.filter(lambda b_: b_.strip()).map(lambda b_: ("a %" + b_.replace(" ", "") + "% b", ["a", b_.replace(" ", ""), "b"])),
    )
    plain_ = st.sampled_from(["a", "x1", "f(a)"]).map(lambda v: (v, [v]))

    def _mk(ps):
        exp = []
        for i_, (_, toks) in enumerate(ps):
            exp += (["+"] if i_ else []) + toks
        return {"s": " + ".join(src for src, _ in ps), "expect": exp}

    escaped = st.lists(st.one_of(quoted, plain_), min_size=1, max_size=3).map(_mk)
    return st.one_of(escaped, gen_alpha(), gen_mutated(), gen_pyfrag(), st.builds(lambda t, ws: {"s": wsjoin(G.tokens_structured(t), ws)}, G.structured(max_leaves=6), st.lists(st.integers(0, 11), max_size=5)))


def gen_respace():
    return st.builds(
        lambda t, ws, sp: {"tree": t, "ws": ws, "spells": sp},
        G.structured(allow_dot=True, max_leaves=8),
        st.lists(st.integers(0, 11), min_size=1, max_size=8),
        st.lists(G.sign_run(), max_size=2),
    )


# ---------------------------------------------------------------- a quoted name that spells an operator expression


def check_quoted_vs_terms(case) -> Outcome:
    """A column whose *name* spells an operator expression over other columns (`a:b`, `a + b`, `a*b`) next to that very
    expression: the quoted name is one column of the data, the expression is what the operators make of the other
    columns, and neither absorbs, cancels or replaces the other (oracle: the columns of the data and their products)."""
    import pandas as pd
    from ..libio import model_matrix

    out = Outcome()
    p_, q_ = case["p"], case["q"]
    op = case["op"]
    qn = (f"{q_}{op}{p_}" if case["flip"] else f"{p_}{op}{q_}")
    df = pd.DataFrame({p_: [1.0, 2.0, 3.0, 5.0], q_: [2.0, 5.0, 7.0, 11.0], qn: [10.0, 20.0, 40.0, 90.0], "w": [0.5, 0.25, 4.0, 8.0]})
    P, Q, N_, W = (df[c].to_numpy() for c in (p_, q_, qn, "w"))
    shapes = {
        "sum": (f"`{qn}` + {p_}:{q_} - 1", [N_, P * Q]),
        "sum-rev": (f"{p_}:{q_} + `{qn}` - 1", [P * Q, N_]),
        "star-minus": (f"{p_}*{q_} - `{qn}` - 1", [P, Q, P * Q]),
        "minus-inter": (f"`{qn}` + {p_} + {q_} - {p_}:{q_} - 1", [N_, P, Q]),
        "expand": (f"({p_}+{q_}):({p_}+{q_}) + `{qn}` - 1", [P, Q, N_, P * Q]),
        "nested": (f"`{qn}`:w + {p_}:{q_}:w - 1", [N_ * W, P * Q * W]),
        "power": (f"({p_}+{q_}+`{qn}`)**2 - 1", [P, Q, N_, P * Q, P * N_, Q * N_]),
    }
    s, exp = shapes[case["shape"]]
    out.nontrivial = op == ":"
    out.label("quoted-operator-name:" + op.strip(), "shape:" + case["shape"])
    feat = dict(shape=case["shape"], op=op.strip(), flip=case["flip"])
    try:
        mm = model_matrix(s, df, output="numpy")
    except Exception as e:
        out.fail("quoted-vs-terms-rejected", f"{s!r}: {type(e).__name__}: {str(e)[:160]}", **feat)
        return out
    got = np.asarray(mm, dtype=float)
    key = lambda col: tuple(np.round(col, 9).tolist())
    if got.ndim != 2 or sorted(key(got[:, j]) for j in range(got.shape[1])) != sorted(key(e) for e in exp):
        out.fail("quoted-vs-terms-columns", f"{s!r} with a column called {qn!r}: columns {list(mm.model_spec.column_names)} hold {got.T.tolist()}, expected (in some order) {[e.tolist() for e in exp]}", **feat)
    return out


def gen_quoted_vs_terms():
    ident = st.sampled_from(["a", "b", "x", "zz2", "A_1"])
    return st.builds(
        lambda p_, q_, op, flip, shape: {"p": p_, "q": q_, "op": op, "flip": flip, "shape": shape},
        ident, ident, st.sampled_from([":", ":", ":", " + ", "*", " : "]), st.booleans(),
        st.sampled_from(["sum", "sum-rev", "star-minus", "minus-inter", "expand", "nested", "power"]),
    ).filter(lambda c: c["p"] != c["q"])


N = {"quick": (1500, 1200, 900, 2500), "thorough": (20000, 15000, 12000, 30000)}
BUDGET_S = {"quick": 90, "thorough": 1500}


def campaigns(tier, shard=0, nshards=1):
    n = N[tier]
    return [
        Campaign("respace", gen_respace(), check_respace, n[0]),
        Campaign("quoted", gen_quoted(), check_quoted, n[1]),
        Campaign("verbatim", gen_verbatim(), check_verbatim, n[2]),
        Campaign("spans", gen_spans(), check_spans, n[3]),
        Campaign("quoted-vs-terms", gen_quoted_vs_terms(), check_quoted_vs_terms, 300 if tier == "quick" else 2000),
    ]
