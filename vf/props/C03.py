"""
C03 - rank reduction yields a structurally full-rank matrix with unchanged span.
"""

from __future__ import annotations

import itertools

import numpy as np
from hypothesis import strategies as st

from ..core import Campaign, Outcome
from ..ref import contrasts as RC

RULE = (
    "generated: term sets over <=4 categorical variables (1-4 levels each) and <=2 numeric ones - any subset of the "
    "interaction lattice (marginality not required), any order (_ordering='none' and the default degree order), "
    "cluster_by none / numerical_factors, intercept absent or present at any position, one encoding expression per "
    "variable from {bare column, C(v), treatment with explicit base, SAS, sum, helmert x4, diff x2, poly}; data = the "
    "(level labels: strings, an empty string, integers from 0, floats that agree to 12 significant digits); "
    "full crossing of the levels replicated until rows >= 2 x columns, Gaussian numeric columns from "
    "default_rng(drawn seed). enumerated (exhaustive for that sub-space): every subset of the 7 possible terms over "
    "{A (3 levels), B (2 levels), x}, with and without intercept, in every order for <=3 terms (quick) / <=4 terms plus "
    "24 sampled orders beyond (thorough), treatment coding. Oracle (validity predicate): with X = reduced, F = unreduced "
    "matrix: rank(X) == ncols(X) and rank(X) == rank(F) == rank([X|F]) (SVD, relative tolerance 1e-8); a failure is "
    "re-evaluated on two further numeric draws and only counts if it persists. Non-trivial = >=2 terms sharing a "
    "categorical variable, or an interaction whose margins are absent; distinct by (ordered term list, level counts, options)."
)
ASSUMPTIONS = [
    "each variable appears under a single factor expression (the property's precondition)",
    "numerical rank at relative tolerance 1e-8 on O(1) data decides structural rank",
]

CATS = ["A", "B", "D", "E", "F"]
NUMS = ["x", "y"]
ENC = [None, "C", {"kind": "treatment", "base": 1}, {"kind": "SAS"}, {"kind": "sum"}, {"kind": "helmert"},
       {"kind": "helmert", "reverse": False}, {"kind": "helmert", "scale": True}, {"kind": "helmert", "reverse": False, "scale": True},
       {"kind": "diff"}, {"kind": "diff", "backward": False}, {"kind": "poly"}]


def level_labels(v, k):
    if v == "E":
        return list(range(k))  # integer levels starting at a falsy 0 (categorical dtype)
    if v == "D":
        return ["", "d1", "d2", "d3"][:k]  # first level is the empty string
    if v == "F":
        # float levels (a float column, always wrapped in C()) that only differ beyond the 12th significant digit
        return [0.3, 0.1 + 0.2, 1700000000.0001, 1700000000.0002][:k]
    return [f"{v.lower()}{i}" for i in range(k)]


def enc_expr(v, enc, k):
    if v in NUMS and enc == "bs-icpt":
        # a numerical factor that itself spans the intercept (its columns sum to one)
        return f"bs({v}, df=4, include_intercept=True)"
    if v == "F" and enc is None:
        enc = "C"  # a bare float column would be numerical
    if v in NUMS or enc is None:
        return v
    if enc == "C":
        return f"C({v})"
    spec = dict(enc)
    if spec.get("base") is not None:
        spec["base"] = level_labels(v, k)[spec["base"] % k]
    return f"C({v}, {RC.expr(spec)})"


def build_data(levels, used_cats, seed, reps):
    import pandas as pd

    cross = list(itertools.product(*[level_labels(v, levels[v]) for v in used_cats])) or [()]
    rows = cross * reps
    rng = np.random.default_rng(seed)
    data = {
        v: (pd.Categorical([r[i] for r in rows], categories=level_labels(v, levels[v])) if v == "E" else pd.Series([r[i] for r in rows], dtype=(float if v == "F" else object)))
        for i, v in enumerate(used_cats)
    }
    n = len(rows)
    for v in NUMS:
        data[v] = rng.normal(0, 1, n)
    return pd.DataFrame(data)


def _dense(m):
    a = m.toarray() if hasattr(m, "toarray") else (m.to_numpy() if hasattr(m, "to_numpy") else np.asarray(m))
    return np.asarray(a, dtype=float)


def rank(M):
    if M.size == 0:
        return 0
    s = np.linalg.svd(M, compute_uv=False)
    return int((s > 1e-8 * s[0]).sum()) if s[0] > 0 else 0


def evaluate(terms, levels, encs, seed, ordering, cluster_by, reps0=2, prime=False, output="numpy", shuffle_index=False, scales=()):
    """Returns (ok, details)."""
    from formulaic import Formula

    used = sorted({v for t in terms for v in t if v != "1"})
    used_cats = [v for v in used if v in CATS]
    exprs = {v: enc_expr(v, encs.get(v) or ("bs-icpt" if (v in NUMS and seed % 5 == (0 if v == "x" else 1)) else None), levels.get(v, 1)) for v in used}
    tstr = [("1" if t == ["1"] else ":".join(exprs[v] for v in t)) for t in terms]
    # non-zero numeric literal scalings (leading or trailing) change neither rank nor span
    for i_, val, trailing in scales:
        j_ = i_ % len(tstr)
        if tstr[j_] != "1" and not tstr[j_][:1].isdigit() and not tstr[j_].rsplit(":", 1)[-1][:1].isdigit():
            tstr[j_] = f"{tstr[j_]}:{val}" if trailing else f"{val}:{tstr[j_]}"
    f = Formula(tstr, _ordering=ordering)
    if prime:
        # a preceding call in the same process on data where the kinds are swapped (categorical variables numeric and
        # vice versa): process-wide caches keyed by variable name would poison the real call
        try:
            import pandas as pd

            sw = {v: ([float(i % 3) for i in range(6)] if v in CATS else [["p", "q", "r"][i % 3] for i in range(6)]) for v in used}
            Formula(tstr, _ordering=ordering).get_model_matrix(pd.DataFrame(sw), context={}, output="numpy")
        except Exception:
            pass
    reps = reps0
    for _ in range(6):
        df = build_data(levels, used_cats, seed, reps)
        if shuffle_index:
            df.index = np.random.default_rng(seed).permutation(len(df))
        kw = dict(context={}, output=output, cluster_by=cluster_by)
        F_ = _dense(f.get_model_matrix(df, ensure_full_rank=False, **kw))
        if len(df) >= 2 * max(F_.shape[1], 1):
            break
        reps *= 2
    mmx = f.get_model_matrix(df, ensure_full_rank=True, **kw)
    X = _dense(mmx)
    F_ = F_.reshape(len(df), -1)
    X = X.reshape(len(df), -1)
    rX, rF = rank(X), rank(F_)
    rXF = rank(np.hstack([X, F_])) if X.shape[1] + F_.shape[1] else 0
    ok = rX == X.shape[1] and rX == rF == rXF
    return ok, dict(formula=tstr, ordering=ordering, ncols_X=X.shape[1], rank_X=rX, rank_F=rF, rank_XF=rXF, rows=len(df),
                    columns=list(mmx.model_spec.column_names))


def nontrivial(terms):
    cats = [frozenset(v for v in t if v in CATS) for t in terms]
    share = any(a & b for i, a in enumerate(cats) for b in cats[i + 1 :])
    tset = {frozenset(t) for t in terms}
    missing_margin = any(len(t) >= 2 and any(frozenset(t) - {v} not in tset for v in t) for t in terms)
    return share or missing_margin


def check_case(case) -> Outcome:
    out = Outcome()
    terms = [list(t) for t in case["terms"]]
    levels = case["levels"]
    encs = {v: ENC[i % len(ENC)] for v, i in case["enc"].items()}
    out.nontrivial = nontrivial(terms)
    out.label("ordering:" + case["ordering"], "cluster:" + str(case["cluster_by"]), "terms:%d" % len(terms))
    if any(levels.get(v, 2) == 1 for t in terms for v in t if v in CATS):
        out.label("one-level-factor")
    extra = dict(prime=bool(case.get("prime")), output=case.get("output", "numpy"), shuffle_index=bool(case.get("shuffle_index")), scales=[tuple(x) for x in case.get("scales", [])])
    if extra["scales"]:
        out.label("literal-scales")
    if extra["prime"]:
        out.label("primed")
    out.label("out:" + extra["output"])
    ok, d = evaluate(terms, levels, encs, case["seed"], case["ordering"], case["cluster_by"], **extra)
    if not ok:
        # structural defects do not depend on the numeric draw: re-evaluate twice
        again = [evaluate(terms, levels, encs, case["seed"] + 1000 * k, case["ordering"], case["cluster_by"], reps0=4, **extra) for k in (1, 2)]
        if all(not a[0] for a in again):
            what = "not-full-rank" if d["rank_X"] != d["ncols_X"] else "span-changed"
            out.fail(what, f"{d}", intercept=any(t == ["1"] for t in terms), ordering=case["ordering"], cluster=case["cluster_by"])
        else:
            out.label("numeric-coincidence-retried")
    return out


def gen():
    @st.composite
    def strat(draw):
        cats = draw(st.lists(st.sampled_from(CATS), min_size=1, max_size=4, unique=True))
        ncat = len(cats)
        nnum = draw(st.integers(0, 2))
        vars_ = cats + NUMS[:nnum]
        levels = {v: draw(st.sampled_from([1, 2, 2, 3, 3, 4])) for v in cats}
        if ncat == 4:
            levels = {v: min(k, 3) for v, k in levels.items()}
        nterms = draw(st.integers(1, 6))
        terms = []
        for _ in range(nterms):
            t = draw(st.lists(st.sampled_from(vars_), min_size=1, max_size=min(4, len(vars_)), unique=True))
            if sorted(t) not in [sorted(u) for u in terms]:
                terms.append(t)
        if draw(st.booleans()):
            terms.insert(draw(st.integers(0, len(terms))), ["1"])
        return {
            "terms": terms, "levels": levels,
            "enc": {v: draw(st.sampled_from([0, 0, 0] + list(range(len(ENC))))) for v in cats},
            "seed": draw(st.integers(0, 10**6)),
            "ordering": draw(st.sampled_from(["none", "none", "degree", "sort"])),
            "cluster_by": draw(st.sampled_from(["none", "none", "numerical_factors"])),
            "prime": draw(st.booleans()),
            "output": draw(st.sampled_from(["numpy", "numpy", "pandas", "sparse"])),
            "shuffle_index": draw(st.booleans()),
            "scales": draw(st.lists(st.tuples(st.integers(0, 5), st.sampled_from(["2", "3", "0.5", "2.5"]), st.booleans()), max_size=2)),
        }

    return strat()


ALL_TERMS = [["A"], ["B"], ["x"], ["A", "B"], ["A", "x"], ["B", "x"], ["A", "B", "x"]]


def enumerate_lattice(max_full_perm, sampled_beyond):
    def gen_():
        import random

        rnd = random.Random(12345)  # fixed: the sampled orders are part of the check's definition
        for r in range(1, 8):
            for subset in itertools.combinations(range(7), r):
                base = [ALL_TERMS[i] for i in subset]
                for icpt in (False, True):
                    ts = base + ([["1"]] if icpt else [])
                    if len(ts) <= max_full_perm:
                        orders = itertools.permutations(ts)
                    elif sampled_beyond:
                        orders = [rnd.sample(ts, len(ts)) for _ in range(sampled_beyond)]
                    else:
                        orders = [ts]
                    for o in orders:
                        yield {"terms": [list(t) for t in o], "levels": {"A": 3, "B": 2}, "enc": {"A": 0, "B": 0}, "seed": 7, "ordering": "none", "cluster_by": "none"}

    return gen_


BUDGET_S = {"quick": 120, "thorough": 1500}
THOROUGH_SHARDS = 16


def campaigns(tier, shard=0, nshards=1):
    out = [Campaign("generated", gen(), check_case, 1500 if tier == "quick" else 4000)]
    if tier == "quick":
        out.append(Campaign("lattice", None, check_case, 0, enumerate=enumerate_lattice(3, 0), exhaustive=True))
    else:
        full = enumerate_lattice(4, 24)

        def sharded():
            for i, c in enumerate(full()):
                if i % nshards == shard:
                    yield c

        out.append(Campaign("lattice", None, check_case, 0, enumerate=sharded, exhaustive=True))
    return out


def extra_phase(tier, seed, stats):
    return {"exhaustive": True, "exhaustive_scope": "lattice campaign only: subsets of the 7 terms over {A(3), B(2), x} x intercept x orders (all orders for <=3 terms in quick, <=4 terms + 24 sampled orders in thorough; larger subsets in quick: one order)"}
