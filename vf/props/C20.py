"""
C20 - formula differentiation is the term-wise partial derivative.
"""

from __future__ import annotations

import numpy as np
from hypothesis import strategies as st

from ..core import Campaign, Outcome
from .. import libio

RULE = (
    "symbolic: formulas (simple, two-sided, multi-part, keyword-structured; orderings degree/sort/none) whose terms are "
    "products of distinct factors - names, quoted names, opaque call factors, numeric literal scalings, the intercept - "
    "x tuples of 1-3 differentiation variables (present, absent, repeated, names shadowing transforms); oracle: a 10-line "
    "reference ('absent => literal 0; present => remove it; nothing left => 1', successively) compared term by term with "
    "length, order and nested shape. numeric: all factors distinct numeric columns (multilinear), generated data, numpy "
    "output, ensure_full_rank on/off: every non-zero derivative term's column equals the exact finite difference "
    "(col_T(v+1) - col_T(v)) of the original term. Non-trivial = some term contains the variable together with other "
    "factors and some term does not contain it; distinct by (formula, wrt)."
)
ASSUMPTIONS = [
    "use_sympy=True is not exercised (sympy is not installed); ModelSpec.differentiate on a materialised spec is documented experimental and not asserted",
    "finite differences are exact for multilinear terms (h = 1); compared with rtol 1e-9",
]

NAMES = ["a", "b", "c", "d", "C", "scale", "x1", "ab"]  # ("ab" next to the quoted name "a b")
QUOTED = ["a b", "u|v"]
CALLS = ["log(a)", "f(b, c)", "np.exp(d)"]


def fac_str(f):
    return ("`" + f + "`") if f in QUOTED else f


def ref_diff(term, wrt):
    """term: list of factor exprs (literals included). Returns list of factor exprs."""
    factors = list(term)
    for v in wrt:
        if v not in factors:
            return ["0"]
        factors = [f for f in factors if f != v]
    return factors or ["1"]


def is_lit(f):
    return f[:1].isdigit() or f[:1] == "."


def terms_strategy(pool):
    fac = st.sampled_from(pool)
    term = st.lists(fac, min_size=1, max_size=4, unique=True)
    lit = st.sampled_from(["2.5", "3", "0.5"])
    return st.lists(st.tuples(term, st.one_of(st.none(), st.none(), lit)), min_size=1, max_size=5).map(
        lambda ts: _dedupe([([l] if l else []) + t for t, l in ts])
    )


def _dedupe(terms):
    out, seen = [], set()
    for t in terms:
        k = frozenset(f for f in t if not is_lit(f))
        if k in seen:
            continue
        seen.add(k)
        out.append(t)
    return out


def render_terms(terms, intercept):
    body = " + ".join(":".join(fac_str(f) for f in t) for t in terms)
    return body if intercept else "0 + " + body


def expected_list(terms, intercept, ordering):
    ts = ([["1"]] if intercept else []) + [list(t) for t in terms]
    if ordering == "degree":
        ts = sorted(ts, key=lambda t: sum(1 for f in t if not is_lit(f)))
    elif ordering == "sort":
        ts = sorted([sorted(t) for t in ts], key=lambda t: (sum(1 for f in t if not is_lit(f)), t))
    return ts


def check_symbolic(case) -> Outcome:
    from formulaic import Formula

    out = Outcome()
    wrt = case["wrt"]
    ordering = case["ordering"]
    shape = case["shape"]
    parts = case["parts"]  # list of (terms, intercept)
    strs = [render_terms(t, i) for t, i in parts]
    if shape == "simple":
        f = Formula(strs[0], _ordering=ordering)
        exp = expected_list(parts[0][0], parts[0][1], ordering)
        leaves = [(f, exp)]
    elif shape == "twosided":
        lhs_terms = parts[1][0][:2]
        f = Formula(f"{render_terms(lhs_terms, True)} ~ {strs[0]}", _ordering=ordering)
        leaves = [(f.lhs, expected_list(lhs_terms, False, ordering)), (f.rhs, expected_list(parts[0][0], parts[0][1], ordering))]
    elif shape == "multipart":
        f = Formula(f"{strs[0]} | {strs[1]}", _ordering=ordering)
        leaves = [(f.root[0], expected_list(parts[0][0], parts[0][1], ordering)), (f.root[1], expected_list(parts[1][0], parts[1][1], ordering))]
    else:
        f = Formula(main=strs[0], extra=strs[1], _ordering=ordering)
        # keyword parts are parsed by the nested parser: no implicit intercept; "0 + ..." removes nothing
        leaves = [(f.main, expected_list(parts[0][0], False, ordering)), (f.extra, expected_list(parts[1][0], False, ordering))]
    out.label("shape:" + shape, "ordering:" + ordering)
    # sanity: the parsed formula is what the generator thinks (C01 owns parsing; a mismatch here is a harness limitation)
    for leaf, exp in leaves:
        got = [[x.expr for x in t.factors] for t in leaf]
        if [sorted(t) for t in got] != [sorted(t) for t in exp]:
            out.label("excluded:parse-differs-from-generator")
            return out
    d = f.differentiate(*wrt)
    if case.get("wrt_kind"):
        # the variables handed over as str subclasses (formulaic's own Variable objects, numpy.str_)
        from formulaic.utils.variables import Variable

        w2 = [Variable(w) if case["wrt_kind"] == 1 else np.str_(w) for w in wrt]
        d_alt = f.differentiate(*w2)
        if libio.terms_json(d_alt) != libio.terms_json(d):
            out.fail("wrt-as-str-subclass", f"d/d{wrt} of {f!r}: with {type(w2[0]).__name__ if w2 else 'no'} arguments {libio.terms_json(d_alt)} vs with str {libio.terms_json(d)}", shape=shape, ordering=ordering)
    before = libio.terms_json(f)
    if shape == "simple":
        dleaves = [d]
    elif shape == "twosided":
        dleaves = [d.lhs, d.rhs]
    elif shape == "multipart":
        if not isinstance(d.root, tuple) or len(d.root) != 2:
            out.fail("shape", f"{f!r} -> {d!r}", shape=shape)
            return out
        dleaves = [d.root[0], d.root[1]]
    else:
        dleaves = [d.main, d.extra]
    anyin = anyout = False
    for (leaf, exp), dl in zip(leaves, dleaves):
        orig = [[x.expr for x in t.factors] for t in leaf]
        want = [ref_diff(t, wrt) for t in orig]
        got = [[x.expr for x in t.factors] for t in dl]
        if len(got) != len(want):
            out.fail("term-count", f"d/d{wrt} of {orig}: {got}", shape=shape, ordering=ordering)
            continue
        for o, w, g in zip(orig, want, got):
            if set(wrt) & set(o) and len([x for x in o if not is_lit(x)]) > 1:
                anyin = True
            if not set(wrt) & set(o):
                anyout = True
            if sorted(g) != sorted(w):
                out.fail("term-derivative", f"d/d{wrt} of term {o} (formula {orig}, ordering {ordering}): got {g}, expected {w}; whole result {got}", shape=shape, ordering=ordering, repeated=len(set(wrt)) != len(wrt))
                break
    if libio.terms_json(f) != before:
        out.fail("differentiate-mutates-formula", f"{f!r}")
    # the same derivative through model specs (every member of a structured spec is differentiated)
    from formulaic import ModelSpec

    try:
        dspec = ModelSpec.from_spec(f).differentiate(*wrt)
        via_spec = libio.terms_json(dspec.formula) if isinstance(dspec, ModelSpec) else libio.terms_json(dspec._map(lambda sp_: sp_.formula))
    except Exception as e:
        via_spec = f"raised {type(e).__name__}: {str(e)[:100]}"
    if via_spec != libio.terms_json(d):
        out.fail("spec-derivative-differs", f"d/d{wrt} of {f!r}: via ModelSpec(s).differentiate {via_spec} vs {libio.terms_json(d)}", shape=shape, ordering=ordering)
    # history on one formula object: mutate it between differentiations; every derivative is that of the *current* terms
    if shape == "simple" and case.get("mutations"):
        from formulaic.parser.types import Factor, Term

        out.label("mutated-between-differentiations")
        for kind, pos in case["mutations"]:
            if kind == "del" and len(f) > 1:
                del f[pos % len(f)]
            elif kind == "pop" and len(f) > 1:
                f.pop()
            elif kind == "append":
                f.append(Term([Factor(NAMES[pos % len(NAMES)], eval_method="lookup"), Factor("zq", eval_method="lookup")]))
            elif kind == "set" and len(f):
                f[pos % len(f)] = Term([Factor(NAMES[pos % len(NAMES)], eval_method="lookup"), Factor("zr", eval_method="lookup")])
            elif kind == "remove" and len(f) > 1:
                f.remove(list(f)[pos % len(f)])
            cur = [[x.expr for x in t.factors] for t in f]
            got2 = [[x.expr for x in t.factors] for t in f.differentiate(*wrt)]
            want2 = [ref_diff(t, wrt) for t in cur]
            if [sorted(g) for g in got2] != [sorted(w) for w in want2]:
                out.fail("derivative-after-mutation", f"d/d{wrt} after {kind} on the same formula object: terms {cur} -> {got2}, expected {want2}", shape=shape, ordering=ordering, op=kind)
                break
    out.nontrivial = anyin and anyout
    return out


def gen_symbolic():
    pool = NAMES + QUOTED + CALLS
    return st.fixed_dictionaries(
        {
            "parts": st.lists(st.tuples(terms_strategy(pool), st.booleans()), min_size=2, max_size=2),
            # (also: no variable at all, and names that only differ from a factor by blanks)
            "wrt": st.lists(st.sampled_from(NAMES + QUOTED + CALLS + ["zz", "a  b", "log( a )", " a"]), min_size=0, max_size=3),
            "ordering": st.sampled_from(["degree", "degree", "sort", "none"]),
            "shape": st.sampled_from(["simple", "simple", "twosided", "multipart", "keywords"]),
            "wrt_kind": st.sampled_from([0, 0, 1, 2]),
            "mutations": st.lists(st.tuples(st.sampled_from(["del", "pop", "append", "set", "remove"]), st.integers(0, 7)), max_size=3),
        }
    )


NUMCOLS = ["a", "b", "c", "d"]


def check_numeric(case) -> Outcome:
    import pandas as pd
    from formulaic import Formula

    out = Outcome()
    terms, intercept, wrt, efr = case["terms"], case["intercept"], case["wrt"], case["efr"]
    data = {c: [float(v) for v in case["data"][i]] for i, c in enumerate(NUMCOLS)}
    df = pd.DataFrame(data)
    s = render_terms(terms, intercept)
    f = Formula(s)
    d = f.differentiate(*wrt)
    entry = case.get("entry", "formula")
    out.label("entry:" + entry)
    output = case.get("output", "numpy")
    mat = case.get("mat", "pandas")
    if mat == "nw-arrow":
        import pyarrow as pa

        dat, mkw = pa.Table.from_pandas(df, preserve_index=False), {}
    elif mat == "nw-pandas":
        dat, mkw = df, {"materializer": "narwhals"}
    else:
        dat, mkw = df, {}
    if entry != "formula":
        # the same derivative taken on a model spec (fresh, or the spec of a matrix materialised the same way)
        from formulaic import ModelSpec

        spec0 = ModelSpec(formula=Formula(s)) if entry == "spec-fresh" else Formula(s).get_model_matrix(dat, ensure_full_rank=efr, **mkw).model_spec
        dspec = spec0.differentiate(*wrt)
        if [[x.expr for x in t.factors] for t in dspec.formula] != [[x.expr for x in t.factors] for t in d]:
            out.fail("spec-derivative-differs", f"{s!r} d/d{wrt} via {entry}: {dspec.formula!r} vs {d!r}", efr=efr, entry=entry)
            return out
        d = dspec
    mm = d.get_model_matrix(dat, output=output, ensure_full_rank=efr, **mkw)
    out.label("mat:" + mat)
    M = np.asarray(mm.toarray() if hasattr(mm, "toarray") else mm, dtype=float).reshape(len(df), -1)
    out.label("efr" if efr else "no-efr", "out:" + output)
    if M.shape[1] != len(mm.model_spec.column_names):
        out.fail("matrix-columns-vs-spec", f"{s!r} d/d{wrt} output={output}: matrix has {M.shape[1]} columns, its spec names {list(mm.model_spec.column_names)}", efr=efr, output=output)
        return out
    orig_terms = [[x.expr for x in t.factors] for t in f]
    struct = list(mm.model_spec.structure)
    # (a derivative may hold the same term several times, e.g. two `0` terms: the mapping keeps the last one)
    pos_, exp_ti = 0, {}
    for row_ in struct:
        exp_ti[row_.term] = list(range(pos_, pos_ + len(row_.columns)))
        pos_ += len(row_.columns)
    got_ti = {t_: list(i_) for t_, i_ in mm.model_spec.term_indices.items()}
    if got_ti != exp_ti:
        out.fail("term-indices-vs-structure", f"{s!r} d/d{wrt}: term_indices {got_ti} but the structure places the terms at {exp_ti} (names {list(mm.model_spec.column_names)})", efr=efr)
    if len(struct) != len(orig_terms):
        out.fail("structure-length", f"{s!r} d/d{wrt}: {len(struct)} rows for {len(orig_terms)} terms", efr=efr)
        return out

    def col(term, frame):
        v = np.ones(len(frame))
        for fct in term:
            v = v * (float(fct) if is_lit(fct) else frame[fct].to_numpy())
        return v

    pos = 0
    anyin = anyout = False
    for o, row in zip(orig_terms, struct):
        want = ref_diff(o, wrt)
        ncols = len(row.columns)
        if set(wrt) & set(o) and len([x for x in o if not is_lit(x)]) > 1:
            anyin = True
        if not set(wrt) & set(o):
            anyout = True
        if want == ["0"]:
            # zero derivative: if a column is emitted it must be all zeros
            for j in range(pos, pos + ncols):
                if not np.allclose(M[:, j], 0):
                    out.fail("zero-derivative-column", f"{s!r} d/d{wrt}: term {o} -> column {M[:, j].tolist()}", efr=efr)
            pos += ncols
            continue
        # iterated exact finite difference of the original term's column (multilinear: h = 1 is exact)
        def fd(frame, vs):
            if not vs:
                return col(o, frame)
            up = frame.copy()
            up[vs[0]] = up[vs[0]] + 1.0
            return fd(up, vs[1:]) - fd(frame, vs[1:])

        exp = fd(df, list(wrt))
        if ncols != 1:
            out.fail("nonzero-derivative-has-one-column", f"{s!r} d/d{wrt} (efr={efr}): term {o} -> derivative {want} materialised to {ncols} columns {row.columns}", efr=efr, const=all(is_lit(x) for x in want))
            pos += ncols
            continue
        if not np.allclose(M[:, pos], exp, rtol=1e-9, atol=1e-9):
            out.fail("finite-difference", f"{s!r} d/d{wrt} (efr={efr}): term {o}: column {M[:, pos].tolist()} vs finite difference {exp.tolist()}", efr=efr)
        pos += 1
    if pos != M.shape[1]:
        out.fail("column-count", f"{s!r}: {M.shape[1]} columns, structure accounts for {pos}", efr=efr)
    out.nontrivial = anyin and anyout
    return out


def gen_numeric():
    vals = st.lists(st.sampled_from([-2.0, -1.0, 0.5, 1.0, 2.0, 3.0, 7.0]), min_size=3, max_size=3)
    return st.fixed_dictionaries(
        {
            "terms": terms_strategy(NUMCOLS),
            "intercept": st.booleans(),
            "wrt": st.lists(st.sampled_from(NUMCOLS), min_size=1, max_size=2, unique=True),
            "efr": st.booleans(),
            "output": st.sampled_from(["numpy", "pandas", "sparse"]),
            "mat": st.sampled_from(["pandas", "pandas", "nw-pandas", "nw-arrow"]),
            "entry": st.sampled_from(["formula", "formula", "spec-fresh", "spec-materialised"]),
            "data": st.lists(vals, min_size=4, max_size=4),
        }
    )


N = {"quick": (2500, 1200), "thorough": (40000, 15000)}
BUDGET_S = {"quick": 60, "thorough": 1200}


def campaigns(tier, shard=0, nshards=1):
    n = N[tier]
    return [Campaign("symbolic", gen_symbolic(), check_symbolic, n[0]), Campaign("numeric", gen_numeric(), check_numeric, n[1])]
