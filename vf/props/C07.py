"""
C07 - multi-part formulas give row-aligned parts equal to separate builds.
"""

from __future__ import annotations

import numpy as np
from hypothesis import strategies as st

from ..core import Campaign, Outcome
from ..gen import frames as F
from .C02 import dense
from .C06 import null_rows

RULE = (
    "Structured formulas - 'lhs ~ rhs', 'a | b | c', 'y1 | y2 ~ x | z', the same shapes given as keyword / tuple / "
    "nested-dict specifications, an empty part ('0') - over G-frames whose nulls are spread over the variables of "
    "different parts, with categorical factors, contrasts and stateful transforms (center/scale on a null-free column) "
    "and lag() of a null-free column (a transform that creates a missing value itself, in the first row) "
    "shared between parts; outputs pandas/numpy/sparse; rank reduction on/off; optional caller drop set. Oracle: (1) "
    "result shape == formula shape; (2) all leaves have the same rows (and index on pandas output), namely the rows "
    "outside the joint null set J computed from the data by the generator; (3) every leaf equals the separate build of "
    "that part's formula with drop_rows=J (differential); (4) result.model_spec has the same shape, regenerates the "
    "whole result from the data and each leaf spec regenerates its own part with drop_rows=J. Non-trivial = >=2 leaves "
    "with different own null rows, or a factor shared by two leaves; distinct by (shape, formulas, frame)."
)
ASSUMPTIONS = [
    "the separate build of a part is trusted to be right for that part alone (C02/C06 tie it to the reference encoder)",
    "values compared with rtol/atol 1e-12 (same code path, same arithmetic)",
]


def part_string(fc, lhs=False):
    body = " + ".join(":".join(F.factor_src(f)[0] for f in t) for t in fc["terms"])
    if lhs:
        return body or "0"
    if fc["intercept"]:
        return "1 + " + body if body else "1"
    return "0 + " + body if body else "0"


def shape_of(obj):
    from formulaic.utils.structured import Structured

    if isinstance(obj, Structured):
        return {k: shape_of(v) for k, v in sorted(obj._structure.items())}
    if isinstance(obj, tuple):
        return [shape_of(v) for v in obj]
    return "leaf"


def leaves_of(obj, path=()):
    from formulaic.utils.structured import Structured

    if isinstance(obj, Structured):
        out = []
        for k, v in obj._structure.items():
            out += leaves_of(v, path + (k,))
        return out
    if isinstance(obj, tuple):
        out = []
        for i, v in enumerate(obj):
            out += leaves_of(v, path + (i,))
        return out
    return [(path, obj)]


def check_case(case) -> Outcome:
    from formulaic import Formula
    from formulaic.utils.structured import Structured

    out = Outcome()
    fr = case["frame"]
    parts = case["parts"]
    shape, output, efr = case["shape"], case["output"], case["efr"]
    df = F.build(fr)
    n = fr["n"]
    if len(set(fr["cols"]["z"]["values"])) < 2 and any(f.get("fn") == "scale" for p in parts for t in p["terms"] for f in t):
        # scale() of a constant column is 0/0 = NaN in every row: every row is (correctly) missing; nothing to align
        out.rejected = True
        return out
    strs = [part_string(p, lhs=(shape in ("twosided", "both") and i == 0)) for i, p in enumerate(parts)]
    if shape == "twosided":
        f = Formula(f"{strs[0]} ~ {strs[1]}")
        exp_leaves = {("lhs",): 0, ("rhs",): 1}
    elif shape == "multipart":
        f = Formula(" | ".join(strs))
        exp_leaves = {("root", i): i for i in range(len(strs))}
    elif shape == "both":
        lhs2 = part_string(parts[1], lhs=True)
        f = Formula(f"{strs[0]} | {lhs2} ~ {strs[2]} | {strs[1]}")
        exp_leaves = {("lhs", 0): 0, ("lhs", 1): "lhs2", ("rhs", 0): 2, ("rhs", 1): 1}
    elif shape == "keywords":
        f = Formula(lhs=strs[0], rhs=(strs[1], strs[2]) if len(strs) > 2 else strs[1], extra={"p": strs[-1]})
        exp_leaves = {("lhs",): 0, ("extra", "p"): len(strs) - 1}
        if len(strs) > 2:
            exp_leaves.update({("rhs", 0): 1, ("rhs", 1): 2})
        else:
            exp_leaves[("rhs",)] = 1
    elif shape == "tuple":
        f = Formula(tuple(strs))
        exp_leaves = {("root", i): i for i in range(len(strs))}
    elif shape == "rootkw":
        # a root formula together with keyword parts
        f = Formula(strs[0], w=strs[1], **({"v": strs[2]} if len(strs) > 2 else {}))
        exp_leaves = {("root",): 0, ("w",): 1}
        if len(strs) > 2:
            exp_leaves[("v",)] = 2
    elif shape == "rootonly":
        # a structure with a single (root) part is still a structure: results keep that shape
        f = Formula({"root": strs[0]})
        exp_leaves = {("root",): 0}
    else:
        raise ValueError(shape)
    out.label("shape:" + shape, "out:" + output, "efr" if efr else "no-efr")
    feat = dict(shape=shape, output=output, efr=efr)
    # joint null rows
    J = set()
    own = []
    for p in parts:
        nr = null_rows(p, fr)
        if any(x.get("fn") == "lag" for t in p["terms"] for x in t):
            nr = nr | {0}  # lag() of a complete column: the missing value is created by the transform, in the first row
            out.label("null-created-by-transform")
        own.append(nr)
        J |= nr
    caller = None if case["drop"] is None else {d % n for d in case["drop"]}
    dropped = J | (caller or set())
    kept = [i for i in range(n) if i not in dropped]
    used = [frozenset(F.factor_src(x)[1] for t in p["terms"] for x in t if x["k"] != "lit") for p in parts]
    shared = any(a & b for i, a in enumerate(used) for b in used[i + 1 :])
    out.nontrivial = len(set(map(frozenset, own))) >= 2 or shared
    if shared:
        out.label("shared-factor")
    passed = None if caller is None else set(caller)
    res = f.get_model_matrix(df, output=output, ensure_full_rank=efr, drop_rows=passed, context={})
    if not isinstance(res, Structured):
        out.fail("result-structured", f"{f!r} -> {type(res)}", **feat)
        return out
    if shape_of(res) != shape_of(f):
        out.fail("result-shape", f"formula shape {shape_of(f)} vs result shape {shape_of(res)}", **feat)
        return out
    rl = dict(leaves_of(res))
    fl = dict(leaves_of(f))
    if set(rl) != set(exp_leaves):
        out.fail("formula-shape-vs-generator", f"{sorted(rl)} vs {sorted(exp_leaves)}", **feat)
        return out
    idx0 = None
    # every part carries the spec of *its* formula part, and has as many columns as that spec names
    for path, mm in rl.items():
        if mm.model_spec.formula != fl[path] or (len(mm.shape) == 2 and mm.shape[1] != len(mm.model_spec.column_names)):
            out.fail("part-in-wrong-slot", f"{f!r}: part {path} holds a matrix of shape {mm.shape} with the spec of {mm.model_spec.formula!r}, expected the part {fl[path]!r}", **feat)
            return out
    for path, mm in rl.items():
        ncol = len(mm.model_spec.column_names)
        M = dense(mm).reshape(-1, ncol) if ncol else np.zeros((mm.shape[0], 0))
        if M.shape[0] != len(kept):
            out.fail("rows-aligned", f"{f!r}: part {path} has {M.shape[0]} rows, joint kept rows {len(kept)} (own nulls {list(map(sorted, own))}, caller {caller})", **feat, empty=ncol == 0)
            continue
        if output == "pandas":
            if list(mm.index) != list(df.index[kept]):
                out.fail("index-aligned", f"{f!r}: part {path} index {list(mm.index)} vs {list(df.index[kept])}", **feat)
        # separate build of this part alone with the joint drop set
        leaf_formula = fl[path]
        sep = leaf_formula.get_model_matrix(df, output=output, ensure_full_rank=efr, drop_rows=set(dropped), context={})
        S = dense(sep).reshape(-1, len(sep.model_spec.column_names)) if len(sep.model_spec.column_names) else np.zeros((sep.shape[0], 0))
        if list(sep.model_spec.column_names) != list(mm.model_spec.column_names):
            out.fail("part-equals-separate-build-names", f"{f!r}: part {path}: {list(mm.model_spec.column_names)} vs separate {list(sep.model_spec.column_names)}", **feat)
        elif S.shape != M.shape or not np.allclose(M, S, rtol=1e-12, atol=1e-12, equal_nan=True):
            out.fail("part-equals-separate-build-values", f"{f!r}: part {path} differs from the separate build of {leaf_formula!r}\n joint {M.tolist()}\n separate {S.tolist()}", **feat)
        # the leaf's own spec regenerates it
        again = mm.model_spec.get_model_matrix(df, drop_rows=set(dropped), context={})
        A = dense(again).reshape(-1, ncol) if ncol else np.zeros((again.shape[0], 0))
        if A.shape != M.shape or not np.allclose(A, M, rtol=1e-12, atol=1e-12, equal_nan=True):
            out.fail("leaf-spec-regenerates-part", f"{f!r}: part {path}", **feat)
    # (5) each leaf spec carries the state pooled during the joint build: applied to a strict subset of the kept
    # rows it must reproduce those rows (a transform that had to re-derive its statistics would differ)
    has_lag = any(x.get("fn") == "lag" for p in parts for t in p["terms"] for x in t)
    if len(kept) >= 3 and not has_lag:  # (lag is not row-wise: a subset of the rows has other lags)
        sub = kept[::2]
        dsub = df.iloc[sub]
        for path, mm in rl.items():
            ncol = len(mm.model_spec.column_names)
            if not ncol:
                continue
            M = dense(mm).reshape(-1, ncol)
            try:
                part = mm.model_spec.get_model_matrix(dsub, context={})
            except Exception as e:
                out.fail("leaf-spec-on-subset", f"{f!r}: part {path}: {type(e).__name__}: {str(e)[:150]}", **feat)
                continue
            P = dense(part).reshape(-1, ncol)
            rows = [kept.index(i) for i in sub]
            if P.shape != (len(sub), ncol) or not np.allclose(P, M[rows], rtol=1e-9, atol=1e-9, equal_nan=True):
                out.fail("leaf-spec-carries-pooled-state", f"{f!r}: part {path}: spec applied to rows {sub} differs from those rows of the joint result", **feat)
    if passed is not None and {int(v) for v in passed} != dropped:
        out.fail("caller-set", f"{f!r}: {sorted(int(v) for v in passed)} vs {sorted(dropped)}", **feat)
    specs = res.model_spec
    if shape_of(specs) != shape_of(f):
        out.fail("spec-shape", f"{shape_of(specs)}", **feat)
    else:
        regen = specs.get_model_matrix(df, drop_rows=None if caller is None else set(caller), context={})
        if shape_of(regen) != shape_of(res):
            out.fail("specs-regenerate-shape", f"{shape_of(regen)}", **feat)
        else:
            r2 = dict(leaves_of(regen))
            for path, mm in rl.items():
                ncol = len(mm.model_spec.column_names)
                a = dense(mm).reshape(-1, ncol) if ncol else np.zeros((mm.shape[0], 0))
                b = dense(r2[path]).reshape(-1, ncol) if ncol else np.zeros((r2[path].shape[0], 0))
                if a.shape != b.shape or not np.allclose(a, b, rtol=1e-12, atol=1e-12, equal_nan=True):
                    out.fail("specs-regenerate-values", f"{f!r}: part {path}: {a.shape} vs {b.shape}", **feat)
        # the same with an option override (another output type): still one joint build, parts stay row-aligned
        other_out = {"pandas": "numpy", "numpy": "sparse", "sparse": "pandas"}[output]
        try:
            regen2 = specs.get_model_matrix(df, drop_rows=None if caller is None else set(caller), context={}, output=other_out)
        except Exception as e:
            out.fail("specs-regenerate-override-raises", f"{f!r} output={other_out}: {type(e).__name__}: {str(e)[:150]}", **feat)
            return out
        if shape_of(regen2) != shape_of(res):
            out.fail("specs-regenerate-shape", f"with override: {shape_of(regen2)}", **feat)
        else:
            r3 = dict(leaves_of(regen2))
            for path, mm in rl.items():
                ncol = len(mm.model_spec.column_names)
                a = dense(mm).reshape(-1, ncol) if ncol else np.zeros((mm.shape[0], 0))
                b_ = dense(r3[path])
                b = b_.reshape(-1, ncol) if ncol and b_.size % ncol == 0 else (np.zeros((r3[path].shape[0], 0)) if not ncol else b_)
                if a.shape != b.shape or not np.allclose(a, b, rtol=1e-12, atol=1e-12, equal_nan=True):
                    out.fail("specs-regenerate-override-values", f"{f!r}: part {path} rebuilt with output={other_out}: {a.shape} vs {b.shape}", **feat)
    return out


def gen(max_rows=10):
    shared_fac = st.sampled_from(
        [
            {"k": "st", "fn": "center", "col": "z"},
            {"k": "st", "fn": "scale", "col": "z"},
            {"k": "cat", "col": "A"},
            {"k": "C", "col": "B", "contrast": {"kind": "sum"}},
            {"k": "C", "col": "A", "contrast": {"kind": "helmert"}},
            {"k": "num", "col": "x"},
        ]
    )

    @st.composite
    def strat(draw):
        fr = draw(F.frame(min_rows=2, max_rows=max_rows, nulls=True, index_kinds=("default", "default", "shuffled", "strings"), null_free=("z",)))
        shape = draw(st.sampled_from(["twosided", "twosided", "multipart", "both", "keywords", "tuple", "tuple", "rootonly", "rootkw", "rootkw"]))
        nparts = {"twosided": 2, "multipart": draw(st.integers(2, 3)), "both": 3, "keywords": draw(st.integers(2, 3)), "tuple": draw(st.integers(1, 3)), "rootonly": 1, "rootkw": draw(st.integers(2, 3))}[shape]
        parts = [draw(F.formulas(max_terms=3, max_factors=2, polyraw=False)) for _ in range(nparts)]
        sf = draw(st.one_of(st.none(), shared_fac))
        if sf is not None and nparts >= 2:
            k = draw(st.integers(2, nparts))
            for p in parts[:k]:
                pos = draw(st.integers(0, 1))
                terms = p["terms"] + [[sf]] if pos == 0 else [t + [sf] if i == 0 else t for i, t in enumerate(p["terms"])] or [[sf]]
                p["terms"] = F.normalize_terms(terms)
        if draw(st.integers(0, 2)) == 0 and nparts >= 2:
            # the same interaction, written with its factors in reverse order, in a later part
            src = [t for t in parts[0]["terms"] if F.term_degree(t) >= 2]
            if src:
                rev = list(reversed(src[0]))
                parts[-1]["terms"] = F.normalize_terms(parts[-1]["terms"] + [rev])
                if rev not in parts[-1]["terms"]:
                    key = lambda t: frozenset(F.factor_src(f)[1] for f in t if f["k"] != "lit")  # noqa: E731
                    parts[-1]["terms"] = [rev] + [t for t in parts[-1]["terms"] if key(t) != key(rev)]
        if shape in ("twosided", "both", "keywords"):
            lhs = {"intercept": False, "terms": F.normalize_terms([[{"k": "num", "col": draw(st.sampled_from(["y", "x"]))}]] + (parts[0]["terms"][:1] if draw(st.booleans()) else []))}
            parts[0] = lhs
        if draw(st.integers(0, 7)) == 0:
            parts[-1] = {"intercept": False, "terms": []}  # an empty part
        if draw(st.integers(0, 5)) == 0:
            # a transform that creates a missing value (first row) from a complete column, in one part; the bare column
            # itself (complete, so it contributes no missing row) possibly in another
            i = draw(st.integers(0, nparts - 1))
            parts[i]["terms"] = F.normalize_terms(parts[i]["terms"] + [[{"k": "py", "fn": "lag", "cols": ["z"]}]])
            if draw(st.booleans()):
                j = draw(st.integers(0, nparts - 1))
                parts[j]["terms"] = F.normalize_terms(parts[j]["terms"] + [[{"k": "num", "col": "z"}]])
        return {
            "frame": fr, "parts": parts, "shape": shape,
            "output": draw(st.sampled_from(["pandas", "pandas", "numpy", "sparse"])),
            "efr": draw(st.sampled_from([True, True, False])),
            "drop": draw(st.one_of(st.none(), st.none(), st.lists(st.integers(0, 30), max_size=3))),
        }

    return strat()


BUDGET_S = {"quick": 110, "thorough": 1500}


def campaigns(tier, shard=0, nshards=1):
    return [Campaign("structured", gen(10 if tier == "quick" else 18), check_case, 700 if tier == "quick" else 6000)]
