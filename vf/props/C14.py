"""
C14 - any input string is parsed or rejected with the library's parsing error.
"""

from __future__ import annotations

import ast
import json
import os
import re
import signal
import sys

from hypothesis import strategies as st

from ..core import Campaign, HarnessError, Outcome, lib_frame, safe_check
from ..gen import formula as G
from .. import libio

RULE = (
    "Strings from 3 generators (full-unicode text <=64 chars; weighted formula alphabet <=24 tokens; "
    "grammar-derived strings with 1-3 token-level mutations incl. empty-set operands) x include_intercept "
    "x 8 feature-flag subsets, through Formula(s) and DefaultFormulaParser.get_terms(s). Oracle: returns, or "
    "FormulaParsingError, or plain SyntaxError only if a python token of the string is itself invalid Python; "
    "successful parses must not have shapes only disabled operators can create. Non-trivial = the string was "
    "rejected or contains a bracket/quote/brace character; distinct by (string, config)."
)
ASSUMPTIONS = [
    "termination is checked against a 20 s per-call watchdog only",
    "exponents > 4 after ** or ^ are excluded by construction (result size is exponential by definition) and counted",
    "NotImplementedError for nested multistage formulas with structured lhs is pinned by the repository's own tests and accepted",
    "the library's own tokenize() is used to find python tokens when classifying a plain SyntaxError",
]

FLAGSETS = [
    [],
    ["TWOSIDED"],
    ["MULTIPART"],
    ["MULTISTAGE"],
    ["TWOSIDED", "MULTIPART"],
    ["TWOSIDED", "MULTISTAGE"],
    ["MULTIPART", "MULTISTAGE"],
    ["TWOSIDED", "MULTIPART", "MULTISTAGE"],
]
config = st.fixed_dictionaries(
    {
        "intercept": st.booleans(),
        "flags": st.sampled_from(FLAGSETS + [["TWOSIDED", "MULTIPART"]] * 4),
    }
)

ALPHA = (
    ["a", "b", "c", "x1", "1", "0", "2", ".", "+", "-", "*", "/", ":", "^", "**", "~", "|", "(", ")", "[", "]",
     "{", "}", "`", "'", '"', "%", "%in%", ",", "\\", "_", " ", "  ", "f(", "a b", "1.5", "00", "01", "1.5.", "=", "!", "$", "@", "\n"]
    + ["a", "b", "+", ":", "(", ")", " "] * 3
)

BIG_EXP = re.compile(r"(\*\s*\*|\^)[\s(\[+\-]*0*([5-9]|[1-9]\d)")  # (whitespace does not split an operator token)


class _Timeout(Exception):
    pass


def _alarm(signum, frame):
    raise _Timeout()


def _python_token_invalid(s: str) -> bool:
    """Is some python-kind token of s not a valid Python expression (after backtick names -> placeholders)?"""
    from formulaic.parser.algos.tokenize import tokenize

    toks = []
    try:
        # tokenisation and python-token normalisation are interleaved lazily in the
        # library, so a bad python token is met before a later tokenisation error
        for t in tokenize(s):
            toks.append(t)
    except Exception:
        pass
    for t in toks:
        if t.kind is not None and t.kind.value == "python":
            code = re.sub(r"`[^`]*`", " _q_ ", t.token)
            try:
                ast.parse(code.strip(), mode="eval")
            except SyntaxError:
                return True
            except Exception:
                return True
    return False


def _shape_flags(obj) -> set:
    """Which structural features does a parse result use?"""
    from formulaic.utils.structured import Structured

    out = set()
    if isinstance(obj, Structured):
        if "lhs" in obj._structure:
            out.add("TWOSIDED")

        def walk(o, top):
            if isinstance(o, Structured):
                if "deps" in o._structure:
                    out.add("MULTISTAGE")
                for k, v in o._structure.items():
                    if k == "deps":
                        continue  # contents of a stage are governed by the multistage operator itself
                    walk(v, False)
            elif isinstance(o, tuple):
                out.add("MULTIPART")
                for v in o:
                    walk(v, False)

        walk(obj, True)
    return out


def _call(fn, limit=20):
    old = signal.signal(signal.SIGALRM, _alarm)
    signal.setitimer(signal.ITIMER_REAL, limit)
    try:
        return ("ok", fn())
    except _Timeout:
        return ("timeout", None)
    except BaseException as e:  # noqa
        if isinstance(e, (KeyboardInterrupt, SystemExit)):
            raise
        return ("exc", e)
    finally:
        signal.setitimer(signal.ITIMER_REAL, 0)
        signal.signal(signal.SIGALRM, old)


def check_string(case) -> Outcome:
    from formulaic import Formula
    from formulaic.errors import FormulaParsingError

    s, cfg = case["s"], case["cfg"]
    out = Outcome()
    if BIG_EXP.search(s):
        out.label("excluded:big-exponent")
        return out
    parser = libio.parser_for(cfg)
    results = []
    entries = [
        ("Formula", lambda: Formula(s, _parser=parser)),
        ("get_terms", lambda: parser.get_terms(s)),
    ]
    if "." in s:
        # with the available variables known, `.` expands (to factors that have no source token) instead of being refused
        entries.append(("get_terms+variables", lambda: parser.get_terms(s, context={"__formulaic_variables_available__": ["a", "b", "c", "x1", "y"]})))
        out.label("dot-resolvable")
    for entry, fn in entries:
        kind, val = _call(fn)
        if kind == "timeout":
            kind2, _ = _call(fn)
            if kind2 == "timeout":
                out.fail("terminates", f"{entry}({s!r}) exceeded the 20s watchdog twice", entry=entry)
            if entry != "get_terms+variables":
                results.append("timeout")
            continue
        if kind == "ok":
            if entry != "get_terms+variables":
                results.append("accept")
            used = _shape_flags(val)
            extra = used - set(cfg["flags"])
            if extra:
                out.fail(
                    "disabled-operator-accepted",
                    f"{entry}({s!r}) with flags {cfg['flags']} produced structure needing {sorted(extra)}",
                    feature=",".join(sorted(extra)),
                )
            continue
        e = val
        if entry != "get_terms+variables":
            results.append("reject")
        if isinstance(e, FormulaParsingError):
            continue
        if type(e) is SyntaxError or (isinstance(e, SyntaxError) and not isinstance(e, FormulaParsingError)):
            if _python_token_invalid(s):
                out.label("python-syntax-error")
                continue
            out.fail("plain-SyntaxError-without-invalid-python", f"{entry}({s!r}): {e!r}", frame=lib_frame(e))
            continue
        if isinstance(e, NotImplementedError) and "multistage" in str(e).lower():
            out.label("pinned:NotImplementedError-multistage")
            continue
        out.fail(
            "internal-exception-escapes",
            f"{entry}({s!r}, cfg={cfg}): {type(e).__name__}: {str(e)[:200]}",
            exc=type(e).__name__,
            frame=lib_frame(e),
        )
    if len(set(results)) > 1:
        out.fail("entry-points-disagree", f"{s!r}: Formula -> {results[0]}, get_terms -> {results[1]}")
    rejected = "reject" in results
    out.rejected = rejected
    out.label("rejected" if rejected else "accepted")
    out.nontrivial = rejected or any(ch in s for ch in "()[]{}`'\"%")
    return out


# ---------------------------------------------------------------- generators

MUT_INSERT = ["(", ")", "[", "]", "`", "'", '"', "{", "}", "~", "|", "+", "-", ":", "*", "**", "^", "/", "%in%", "%",
              ".", "0", "1", "(a-a)", "(0)", "a", ",", "2"]


def _mutate(tokens, muts):
    toks = list(tokens)
    for kind, pos, ins in muts:
        if not toks:
            toks = [MUT_INSERT[ins % len(MUT_INSERT)]]
            continue
        i = pos % len(toks)
        if kind == 0:
            del toks[i]
        elif kind == 1:
            toks.insert(i, toks[i])
        elif kind == 2 and len(toks) > 1:
            j = (i + 1) % len(toks)
            toks[i], toks[j] = toks[j], toks[i]
        elif kind == 3:
            toks.insert(i, MUT_INSERT[ins % len(MUT_INSERT)])
        elif kind == 4:
            toks[i] = MUT_INSERT[ins % len(MUT_INSERT)]
        else:
            # replace an operand by an empty-set expression
            toks[i] = ["(a-a)", "(0)", "(b-b)", "(-a)"][ins % 4]
    return toks


def gen_text():
    return st.builds(lambda s, c: {"s": s, "cfg": c}, st.text(max_size=64), config)


def gen_alpha():
    return st.builds(
        lambda ts, c: {"s": "".join(ts)[:64], "cfg": c},
        st.lists(st.sampled_from(ALPHA), max_size=24),
        config,
    )


def gen_mutated():
    mut = st.tuples(st.integers(0, 5), st.integers(0, 40), st.integers(0, 60))
    return st.builds(
        lambda tree, muts, ws, c: {"s": G.join(_mutate(G.tokens_structured(tree), muts), ws), "cfg": c},
        G.structured(max_leaves=6, allow_dot=True),
        st.lists(mut, min_size=1, max_size=3),
        st.lists(st.integers(0, 5), max_size=4),
        config,
    )


def gen_multistage():
    e = G.expr(max_leaves=4, rich=False)
    return st.builds(
        lambda l, r, rest, op, c: {"s": f"{G.join(G.tokens_of(rest))} {op} [{G.join(G.tokens_of(l))} ~ {G.join(G.tokens_of(r))}]", "cfg": c},
        e, e, e, st.sampled_from(["+", "~", "~ x +", "|", ":", "~ [a ~ b] +"]), config,
    )


def gen_tokenless():
    """Invalid uses of operands that the parser synthesises (expansions of `.`, fitted values of a stage): the
    offending factor has no source token to point at."""
    e = G.expr(max_leaves=3, rich=False, allow_dot=True)
    num = st.sampled_from(["2", "3", "0.5", "2.5", "10"])
    name = st.sampled_from(["a", "b", "x1", "y"])
    pw = st.sampled_from(["**", "^"])
    pre = st.sampled_from(["", "y ~ ", "y ~ a + ", "a | "])
    stage = st.sampled_from(["[a ~ b]", "[y ~ x1 + c]"])
    t = st.one_of(
        st.builds(lambda p, x, o: f"{p}{x} {o} .", pre, name, pw),
        st.builds(lambda p, x, o: f"{p}({x} + .) {o} .", pre, name, pw),
        st.builds(lambda p, a_, b_: f"{p}.:{a_} + .:{b_}", pre, num, num),
        st.builds(lambda p, a_, b_: f"{p}{a_}:. + {b_}:.", pre, num, num),
        st.builds(lambda p, a_: f"{p}. + {a_}", pre, num),
        st.builds(lambda p, a_: f"{p}{a_} * .", pre, num),
        st.builds(lambda p: f"{p}.:'s'", pre),
        st.builds(lambda p, x, o, g: f"{p}{x} {o} {g}", pre, name, pw, stage),
        st.builds(lambda p, g, a_, b_: f"{p}{g}:{a_} + {g}:{b_}", pre, stage, num, num),
        st.builds(lambda p, g, a_: f"{p}{g} + {a_}", pre, stage, num),
        st.builds(lambda tr, a_, b_: f"{G.join(G.tokens_of(tr))} + .:{a_} + {b_}:.", e, num, num),
        # terms made of numeric literals only (there is no non-literal factor to point the error at)
        st.builds(lambda p, a_, b_: f"{p}{a_}:{b_}", pre, num, num),
        st.builds(lambda p, a_, b_, x: f"{p}{a_}:{b_} + {x}", pre, num, num, name),
        st.builds(lambda p, a_, b_: f"{p}{a_}:{b_}:1 + {b_}:{a_}", pre, num, num),
        st.builds(lambda p, a_, b_, x: f"{p}{x} + {a_}:{b_}:2 | {a_}:{b_}", pre, num, num, name),
    )
    return st.builds(lambda s_, c: {"s": s_, "cfg": c}, t, config)


LONG_KINDS = ["sum", "minus", "inter", "paren", "unary", "pysum", "pyparen", "bracesum", "calls", "pylist", "power", "parts", "attr", "subs", "callchain", "pypow", "pyneg", "pynot", "lambda", "ifelse"]


def long_string(kind, n):
    if kind == "sum":
        return "+".join(f"x{i}" for i in range(n))
    if kind == "minus":
        return "-".join(f"x{i % 7}" for i in range(n))
    if kind == "inter":
        return ":".join(f"x{i}" for i in range(n))
    if kind == "paren":
        return "(" * n + "a" + ")" * n
    if kind == "unary":
        return "-" * n + "a"
    if kind == "pysum":
        return "f(" + "+".join("a" for _ in range(n)) + ")"
    if kind == "pyparen":
        return "f(" + "(" * n + "a" + ")" * n + ")"
    if kind == "bracesum":
        return "{" + " * ".join(["a", "b"][i % 2] for i in range(n)) + "}"
    if kind == "calls":
        return "f(" * n + "a" + ")" * n
    if kind == "pylist":
        return "f(" + "[" * n + "a" + "]" * n + ")"
    if kind == "power":
        return "(a + b)" + "**1" * n
    if kind == "parts":
        return " | ".join("a" for _ in range(n))
    if kind == "subs":
        return "f(x" + "[0]" * n + ")"
    if kind == "callchain":
        return "f(x" + "()" * n + ")"
    if kind == "pypow":
        return "f(a" + "**a" * n + ")"
    if kind == "pyneg":
        return "{" + "-" * n + "a}"
    if kind == "pynot":
        return "f(" + "not " * n + "a)"
    if kind == "lambda":
        return "f(" + "lambda: " * n + "a)"
    if kind == "ifelse":
        return "f(" + "a if b else " * n + "a)"
    return "f(a" + ".b" * n + ")"


def gen_long():
    """Long / deeply nested inputs: size alone must not turn a parse into an internal error."""
    return st.builds(
        lambda k, n, c: {"s": long_string(k, n), "cfg": c, "long": [k, n]},
        st.sampled_from(LONG_KINDS), st.sampled_from([150, 400, 700, 1200, 3000, 5000]), config,
    )


def gen_pyfrag():
    from ..gen import pyexpr as P

    frag = st.one_of(
        P.pyexpr(allow_braces=False, allow_backticks=True).map(lambda t: "{" + t[0] + "}"),
        P.pyexpr(allow_braces=True, allow_backticks=True).map(lambda t: "f(" + t[0] + ")"),
        P.pyexpr(allow_braces=True, allow_backticks=True).filter(lambda t: t[0][:1].isalpha() and t[0].endswith(")") and "(" in t[0]).map(lambda t: t[0]),
    )
    return st.builds(
        lambda l, r, shape, c: {"s": {0: f"{l} ~ {r}", 1: f"{l} + a ~ b:{r}", 2: f"{l}", 3: f"a | {l} ~ {r} | b", 4: f"y ~ {l}:{r}"}[shape], "cfg": c},
        frag, frag, st.integers(0, 4), config,
    )


def check_history(case) -> Outcome:
    """A parser object whose feature flags are changed between parses (and which may be replaced by a pickled or
    deep-copied copy of itself) must behave like a fresh parser with those flags."""
    from formulaic.parser import DefaultFormulaParser
    from formulaic.errors import FormulaParsingError

    out = Outcome()
    out.nontrivial = len(case["steps"]) >= 2
    parser = DefaultFormulaParser(include_intercept=case["intercept"], feature_flags=set(case["steps"][0]["flags"]) or set())
    for i, step in enumerate(case["steps"]):
        if i:
            parser.set_feature_flags(set(step["flags"]))
        try:
            if step.get("via") == "pickle":
                import pickle

                parser = pickle.loads(pickle.dumps(parser))
            elif step.get("via") == "deepcopy":
                import copy

                parser = copy.deepcopy(parser)
        except Exception as e:
            out.fail("parser-copy-raises", f"step {i} of {case['steps']}: {step['via']} of a used parser: {type(e).__name__}: {str(e)[:150]}")
            break
        fresh = libio.parser_for({"intercept": case["intercept"], "flags": step["flags"]})
        res = []
        for p in (parser, fresh):
            try:
                res.append(("ok", repr(p.get_terms(step["s"]))))
            except FormulaParsingError as e:
                res.append(("reject", ""))
            except SyntaxError:
                res.append(("reject", ""))
        if res[0] != res[1]:
            out.fail("reconfigured-parser-differs-from-fresh", f"step {i} of {case['steps']}: reconfigured parser -> {res[0]}, fresh parser with flags {step['flags']} -> {res[1]}")
            break
    out.label("history")
    return out


def gen_history():
    step = st.fixed_dictionaries({"flags": st.sampled_from(FLAGSETS), "via": st.sampled_from([None, None, None, "pickle", "deepcopy"]), "s": st.sampled_from(["a ~ b", "a | b", "y ~ [a ~ b]", "a + b", "y ~ x | z", "[a ~ b]", "~ a",
                                                                                               # operators fused with a sign into one token
                                                                                               "y ~ -1 + x", "a |+ b", "y ~ [a ~+ z]", "y ~- x", "a |- b", "~ -a", "y ~ +x |+ z", "a:-b ~ c"])})
    return st.fixed_dictionaries({"intercept": st.booleans(), "steps": st.lists(step, min_size=2, max_size=5)})


N = {"quick": (2500, 3500, 3500, 400, 800, 300, 400, 60), "thorough": (40000, 50000, 60000, 6000, 15000, 3000, 4000, 208)}
BUDGET_S = {"quick": 90, "thorough": 1500}
THOROUGH_SHARDS = 16


def campaigns(tier, shard=0, nshards=1):
    n = N[tier]
    return [
        Campaign("text", gen_text(), check_string, n[0]),
        Campaign("alphabet", gen_alpha(), check_string, n[1]),
        Campaign("mutated-grammar", gen_mutated(), check_string, n[2]),
        Campaign("multistage", gen_multistage(), check_string, n[3]),
        Campaign("python-fragments", gen_pyfrag(), check_string, n[4]),
        Campaign("flag-history", gen_history(), check_history, n[5]),
        Campaign("tokenless-factors", gen_tokenless(), check_string, n[6]),
        Campaign("long-inputs", gen_long(), check_string, n[7]),
    ]


# ---------------------------------------------------------------- coverage-guided phase (atheris / libFuzzer)

FUZZ_SEEDS = [
    "y ~ a + b", "a:b + c*d", "[a ~ b] + c", "y ~ x | z", "`a b` + {c+1} + f(d, 'e')", "a %in% b", "(a + b)**2 - a:b", "y ~ -1 + .", "a ~ [b ~ c | d]",
    "f(a)(b) + g(`x`, [1, 2])", "1 + 0 - 1", "a ^ 2 + 2.5:b", "~ a", "a | b | c", "{'}'} + \"q\" + 'r'", "a /(b + c) : d",
]


def extra_phase(tier, seed, stats):
    """Thorough tier: N parallel atheris campaigns (half from an empty corpus, half from a few valid formulas) with
    check_string as the in-target oracle. The quick tier runs one short campaign as a smoke test of the wiring."""
    import glob
    import shutil
    import subprocess
    import tempfile
    import time as _t

    from ..core import VERIF_DIR, Outcome as _O

    try:
        env = dict(os.environ)
        subprocess.run([sys.executable, "-c", "import atheris"], check=True, env=env, capture_output=True, timeout=60)
    except Exception:
        return {"fuzz": "skipped: atheris not importable (setup.sh could not install it)"}
    workers, secs = (2, 12) if tier == "quick" else (16, 420)
    root = tempfile.mkdtemp(prefix="c14fuzz-", dir=os.path.join(VERIF_DIR, "replay"))
    procs = []
    for w in range(workers):
        od = os.path.join(root, f"w{w}")
        corpus = os.path.join(od, "corpus")
        os.makedirs(corpus)
        if w % 2 == 1:
            for i, f_ in enumerate(FUZZ_SEEDS):
                with open(os.path.join(corpus, f"seed{i}"), "wb") as fh:
                    fh.write(bytes([2 * (i % 2), 7 - (i % 8) if i % 3 else 7]) + f_.encode())
        cmd = [sys.executable, "-m", "vf.fuzz_c14", od, f"-seed={seed * 100 + w + 1}", f"-max_total_time={secs}", "-max_len=64", "-timeout=120", "-print_final_stats=1", corpus]
        procs.append((od, subprocess.Popen(cmd, cwd=VERIF_DIR, stdout=subprocess.DEVNULL, stderr=subprocess.PIPE, text=True)))
    t0 = _t.time()
    total = {"execs": 0, "decoded": 0, "accepted": 0, "rejected": 0, "violations": 0}
    cov = []
    crashed = []
    for od, pr in procs:
        try:
            _, err = pr.communicate(timeout=secs + 300)
        except subprocess.TimeoutExpired:
            pr.kill()
            _, err = pr.communicate()
        m = re.findall(r"cov: (\d+) ft: (\d+)", err or "")
        if m:
            cov.append(int(m[-1][0]))
        if pr.returncode not in (0, None) and "Done" not in (err or ""):
            crashed.append((os.path.basename(od), pr.returncode, (err or "")[-300:]))
        try:
            c = json.load(open(os.path.join(od, "counts.json")))
            for k in total:
                total[k] += c.get(k, 0)
        except Exception:
            pass
        vf_ = os.path.join(od, "violations.jsonl")
        if os.path.exists(vf_):
            for line in open(vf_):
                d = json.loads(line)
                # re-evaluate in this process: the bucket, message and replay file come from the ordinary machinery
                o = safe_check(check_string, d["case"])
                if o.violations:
                    stats.record("extra:fuzz", d["case"], o)
    # the executions of the children are not re-run here; account for them as evaluations of the extra phase
    stats.evaluations += total["decoded"]
    pc = stats.per_campaign.setdefault("extra:fuzz", {"evaluations": 0, "nontrivial": 0, "rejected": 0})
    pc["evaluations"] += total["decoded"]
    pc["rejected"] += total["rejected"]
    stats.rejected += total["rejected"]
    shutil.rmtree(root, ignore_errors=True)
    info = {"fuzz": {"engine": "atheris (libFuzzer)", "workers": workers, "seconds_each": secs, "executions": total["execs"], "decoded_inputs": total["decoded"],
                     "accepted": total["accepted"], "rejected": total["rejected"], "violating_executions": total["violations"], "edge_coverage_per_worker": cov,
                     "corpora": "even workers start empty, odd workers from %d valid formulas" % len(FUZZ_SEEDS), "worker_failures": crashed[:3]}}
    if crashed and not total["execs"]:
        raise HarnessError(f"fuzz workers failed: {crashed[:2]}")
    return info


EXTRA_REPLAY = {"extra:fuzz": check_string}
