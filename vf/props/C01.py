"""
C01 - formula strings denote exactly the documented Wilkinson term algebra.
"""

from __future__ import annotations

import itertools

from hypothesis import strategies as st

from ..core import Campaign, Outcome
from ..gen import formula as G
from ..ref import algebra as R
from .. import libio
from .C14 import FLAGSETS

RULE = (
    "Five campaigns. grammar: G-formula trees (depth<=6, <=10 leaves, 5 names + quoted/call/python atoms, sign runs, "
    "0/1, numeric scalings, **/^, %in%, ., |, ~) rendered with minimal parentheses, random whitespace and sign-run "
    "spellings, x include_intercept x 8 flag subsets x available-variable lists; oracle = R-algebra reference "
    "(vf/ref/algebra.py) compared with parser.get_terms (unordered) and Formula (degree ordered) incl. nested shape "
    "and factor order. identities: documented identities as metamorphic pairs. specforms: string vs list / lhs=,rhs= / "
    "tuple / dict forms. reject: constructed out-of-grammar strings must raise. signs-after-tight: 'A op run B' must be "
    "rejected or read as 'A op (run B)'. Non-trivial = >=2 distinct binary operators, or a sign run, or ~ / |, or any "
    "case of campaigns 2-5; distinct by (string(s), configuration)."
)
ASSUMPTIONS = [
    "R-algebra is written from docsite/docs/guides/grammar.md; term identity = factor set, first-appearance order",
    "inputs whose meaning the docs leave open (empty parent of / or %in%, literal-only terms other than 1, one term with two scalings, 0 as operand of a non-additive operator) are counted as 'unspecified' and only required not to crash with a non-library exception",
    "nested braces inside a {python} block are not generated (the tokenizer has no escape for them)",
]

config = st.fixed_dictionaries(
    {
        "intercept": st.booleans(),
        "flags": st.sampled_from(FLAGSETS + [["TWOSIDED", "MULTIPART"]] * 16 + [["TWOSIDED", "MULTIPART", "MULTISTAGE"]] * 8),
        "avail": st.one_of(st.none(), st.lists(st.sampled_from(G.NAMES + ["y", "z", "a b"]), unique=True, max_size=5)),
        "flag_spelling": st.sampled_from([0, 0, 1, 2]),
    }
)


def _uses(tree):
    need = set()
    if tree["lhs"]:
        need.add("TWOSIDED")
    if len(tree["rhs"]) > 1 or (tree["lhs"] and len(tree["lhs"]) > 1):
        need.add("MULTIPART")
    return need


def _has_dot(node):
    if isinstance(node, list):
        if node and node[0] == ".":
            return True
        return any(_has_dot(x) for x in node[1:])
    return False


def _render(case):
    return G.join(G.tokens_structured(case["tree"], iter(case.get("spells", []))), case.get("ws", []))


def _nontrivial_string(s):
    ops = set()
    for op in ["**", "^", "%in%", ":", "*", "/", "+", "-"]:
        if op in s:
            ops.add("**" if op == "^" else op)
            s = s.replace(op, " ")
    return len(ops) >= 2


def check_grammar(case) -> Outcome:
    from formulaic import Formula
    from formulaic.errors import FormulaParsingError

    out = Outcome()
    tree, cfg = case["tree"], case["cfg"]
    s = _render(case)
    parser = libio.parser_for(cfg)
    ctx = {} if cfg["avail"] is None else {"__formulaic_variables_available__": list(cfg["avail"])}
    missing = _uses(tree) - set(cfg["flags"])
    has_dot = any(_has_dot(p) for p in (tree["lhs"] or []) + tree["rhs"])
    out.nontrivial = _nontrivial_string(s) or any(r in s for r in ("~", "|", "--", "+-", "-+", "++"))
    if has_dot:
        out.label("dot")
    if tree["lhs"]:
        out.label("two-sided")
    if len(tree["rhs"]) > 1:
        out.label("multipart")

    def lib(fn):
        try:
            return ("ok", fn())
        except FormulaParsingError as e:
            return ("reject", e)

    if missing:
        out.label("disabled-operator")
        kind, val = lib(lambda: Formula(s, _parser=parser, _context=ctx))
        if kind != "reject":
            out.fail("disabled-operator-accepted", f"{s!r} flags={cfg['flags']} -> {val!r}")
        out.rejected = True
        return out
    if has_dot and cfg["avail"] is None:
        kind, val = lib(lambda: Formula(s, _parser=parser))
        if kind != "reject":
            out.fail("dot-without-context-accepted", f"{s!r} -> {val!r}")
        out.rejected = True
        return out
    try:
        exp_un = R.ev_structured(tree, cfg["intercept"], cfg["avail"], ordered=False)
        exp = R.ev_structured(tree, cfg["intercept"], cfg["avail"], ordered=True)
    except R.Unspecified as e:
        out.label("unspecified:" + str(e).split(" ")[0])
        lib(lambda: Formula(s, _parser=parser, _context=ctx))  # must not leak a non-library exception
        out.nontrivial = False
        return out

    kind, val = lib(lambda: parser.get_terms(s, context=ctx)._simplify())
    if kind == "reject":
        out.fail("grammar-string-rejected", f"get_terms({s!r}, cfg={cfg}): {str(val)[:200]}", entry="get_terms")
    else:
        got = libio.terms_json(val)
        if got != exp_un:
            feat = "order" if libio.normalize_terms(got, False) == libio.normalize_terms(exp_un, False) else "terms"
            out.fail("terms-differ", f"get_terms({s!r}, cfg={cfg})\n  got      {got}\n  expected {exp_un}", entry="get_terms", what=feat)
    kind, val = lib(lambda: Formula(s, _parser=parser, _context=ctx))
    if kind == "reject":
        out.fail("grammar-string-rejected", f"Formula({s!r}, cfg={cfg}): {str(val)[:200]}", entry="Formula")
    else:
        got = libio.terms_json(val)
        if got != exp:
            feat = "order" if libio.normalize_terms(got, False) == libio.normalize_terms(exp, False) else "terms"
            out.fail("terms-differ", f"Formula({s!r}, cfg={cfg})\n  got      {got}\n  expected {exp}", entry="Formula", what=feat)
    return out


# ------------------------------------------------------------- identities


def _plain(node):
    return G.join(G.tokens_of(node, 1000, "r"))  # always parenthesise non-atoms


def check_identity(case) -> Outcome:
    from formulaic import Formula

    out = Outcome()
    out.nontrivial = True
    kind = case["kind"]
    A, B = _plain(case["A"]), _plain(case["B"])
    icpt = case["intercept"]
    parser = libio.parser_for({"intercept": icpt})
    out.label("identity:" + kind)
    if kind == "star":
        s1, s2 = f"{A} * {B}", f"{A} + {B} + {A}:{B}"
    elif kind == "slash":
        a = case["a"]
        s1, s2 = f"{a} / {B}", f"{a} + {a}:{B}"
    elif kind == "in":
        s1, s2 = f"{B} %in% {A}", f"{A} / {B}"
    elif kind == "caret":
        k = case["k"]
        s1, s2 = f"{A} ** {k}", f"{A} ^ {k}"
    elif kind == "power":
        xs, n = case["xs"], case["k"]
        s1 = "(" + " + ".join(xs) + f")**{n}"
        combos = [c for r in range(1, n + 1) for c in itertools.combinations(xs, r)]
        s2 = " + ".join(":".join(c) for c in combos)
    else:
        raise ValueError(kind)
    try:
        f1 = Formula(s1, _parser=parser)
        f2 = Formula(s2, _parser=parser)
    except Exception as e:
        from formulaic.errors import FormulaParsingError

        if isinstance(e, FormulaParsingError) and kind != "power":
            # operands may legitimately make both sides invalid (e.g. same term, two scalings)
            try:
                Formula(s2, _parser=parser)
                Formula(s1, _parser=parser)
            except FormulaParsingError:
                out.rejected = True
                out.nontrivial = False
                return out
        raise
    j1, j2 = libio.terms_json(f1), libio.terms_json(f2)
    if kind == "power":
        a = sorted(sorted(t) for t in j1[1])
        b = sorted(sorted(t) for t in j2[1])
        if a != b:
            out.fail("identity-broken", f"{s1!r} -> {j1}\n{s2!r} -> {j2}", identity=kind)
        if [len(t) for t in j1[1]] != sorted(len(t) for t in j1[1]):
            out.fail("degree-order", f"{s1!r} -> {j1}", identity=kind)
    else:
        n1, n2 = libio.normalize_terms(j1, False), libio.normalize_terms(j2, False)
        if n1 != n2 or not (f1 == f2):
            out.fail("identity-broken", f"{s1!r} -> {j1}\n{s2!r} -> {j2}", identity=kind)
    return out


def gen_identity():
    e = G.expr(max_leaves=4, allow_unary=False, allow_literals=False)
    atom = G.atoms()
    return st.one_of(
        st.builds(lambda A, B, i: {"kind": "star", "A": A, "B": B, "intercept": i}, e, e, st.booleans()),
        st.builds(lambda a, B, i: {"kind": "slash", "A": ["n", "a"], "a": G.join(G.tokens_of(a)), "B": B, "intercept": i}, atom, e, st.booleans()),
        st.builds(lambda A, B, i: {"kind": "in", "A": A, "B": B, "intercept": i}, e, e, st.booleans()),
        st.builds(lambda A, k, i: {"kind": "caret", "A": A, "B": ["n", "a"], "k": k, "intercept": i}, e, st.integers(1, 3), st.booleans()),
        st.builds(
            lambda xs, k, i: {"kind": "power", "A": ["n", "a"], "B": ["n", "a"], "xs": xs, "k": k, "intercept": i},
            st.lists(st.sampled_from(G.NAMES + ["`a b`", "log(a)", "`a:b`", "x1", "zz"]), min_size=1, max_size=5, unique=True),
            st.integers(1, 4),
            st.booleans(),
        ),
    )


# ------------------------------------------------------------- spec forms


def _factor_str(f, atoms):
    return atoms.get(f, f)


def _atom_strings(node, acc):
    if isinstance(node, list) and node:
        k = node[0]
        if k == "q":
            acc[node[1]] = "`" + node[1] + "`"
        elif k == "p":
            acc[node[1]] = "{" + node[1] + "}"
        for x in node[1:]:
            _atom_strings(x, acc)
    return acc


def check_specforms(case) -> Outcome:
    from formulaic import Formula
    from formulaic.errors import FormulaParsingError

    out = Outcome()
    tree = case["tree"]
    s = _render(case)
    try:
        exp = R.ev_structured(tree, True, None, ordered=True)
    except R.Unspecified:
        out.label("unspecified")
        return out
    atoms = {}
    for p in (tree["lhs"] or []) + tree["rhs"]:
        _atom_strings(p, atoms)

    def tstrs(T):
        return [":".join(_factor_str(f, atoms) for f in t) for t in T[1]]

    def to_spec(j):
        if isinstance(j, dict):
            return {k: to_spec(v) for k, v in j.items()}
        if j[0] == "P":
            return tuple(to_spec(v) for v in j[1])
        return tstrs(j)

    f0 = Formula(s)
    out.nontrivial = True
    forms = []
    spec = to_spec(exp)
    if isinstance(spec, dict) and "lhs" in spec:
        forms.append(("keywords", lambda: Formula(lhs=spec["lhs"], rhs=spec["rhs"])))
        forms.append(("dict", lambda: Formula(spec)))
        forms.append(("from_spec-dict", lambda: Formula.from_spec(spec)))
        out.label("form:keywords")
    elif isinstance(spec, dict):
        forms.append(("tuple", lambda: Formula(spec["root"])))
        forms.append(("from_spec-tuple", lambda: Formula.from_spec(spec["root"])))
        out.label("form:tuple")
    else:
        forms.append(("list", lambda: Formula(spec)))
        forms.append(("from_spec-list", lambda: Formula.from_spec(spec)))
        forms.append(("term-objects", lambda: Formula(list(f0))))
        # a list mixing hand-built Term objects and strings (alternating; the order of the list is the order of the terms)
        forms.append(("mixed-terms-and-strings", lambda: Formula([t if i % 2 == 0 else str_ for i, (t, str_) in enumerate(zip(list(f0), spec))])))
        forms.append(("mixed-strings-and-terms", lambda: Formula.from_spec([t if i % 2 == 1 else str_ for i, (t, str_) in enumerate(zip(list(f0), spec))])))
        out.label("form:list")
    for name, mk in forms:
        try:
            f = mk()
        except FormulaParsingError as e:
            out.fail("specform-rejected", f"{name} form of {s!r}: spec={spec!r}: {str(e)[:200]}", form=name)
            continue
        if not (f == f0) or libio.normalize_terms(libio.terms_json(f), False) != libio.normalize_terms(libio.terms_json(f0), False):
            out.fail("specform-differs", f"{name} form of {s!r}: spec={spec!r}\n  got {libio.terms_json(f)}\n  string gives {libio.terms_json(f0)}", form=name)
    return out


# ------------------------------------------------------------- rejection


def check_reject(case) -> Outcome:
    from formulaic import Formula
    from formulaic.errors import FormulaParsingError

    out = Outcome()
    out.nontrivial = True
    out.rejected = True
    s = case["s"]
    parser = libio.parser_for(case["cfg"])
    out.label("reject:" + case["kind"])
    try:
        f = Formula(s, _parser=parser, _context={"__formulaic_variables_available__": ["a", "b"]})
    except FormulaParsingError:
        return out
    except SyntaxError:
        return out
    out.fail("out-of-grammar-accepted", f"{s!r} ({case['kind']}, cfg={case['cfg']}) was read as {libio.terms_json(f)}", kind=case["kind"])
    return out


def gen_reject():
    e = G.expr(max_leaves=4, allow_unary=False, allow_literals=False).map(_plain)
    cfg = st.fixed_dictionaries({"intercept": st.booleans(), "flags": st.just(["TWOSIDED", "MULTIPART"])})

    def mk(kind, s, c):
        return {"kind": kind, "s": s, "cfg": c}

    tight = st.sampled_from(["*", "/", ":", "%in%", "**", "^"])
    return st.one_of(
        st.builds(lambda A, op, c: mk("missing-right-operand", f"{A} {op}", c), e, st.sampled_from(["*", "/", ":", "%in%", "**", "+", "-"]), cfg),
        st.builds(lambda A, op, c: mk("missing-left-operand", f"{op} {A}", c), e, tight, cfg),
        st.builds(lambda A, B, op, c: mk("doubled-operator", f"{A} {op} {op} {B}", c), e, e, st.sampled_from(["/", ":", "%in%", "*", "^"]), cfg),
        st.builds(lambda A, B, C, c: mk("two-tildes", f"{A} ~ {B} ~ {C}", c), e, e, e, cfg),
        st.builds(lambda A, B, C, op, c: mk("structural-inside-parens", f"({A} {op} {B}) + {C}", c), e, e, e, st.sampled_from(["~", "|"]), cfg),
        st.builds(lambda A, B, op, c: mk("structural-inside-parens", f"{A} + ({B} {op} {A})", c), e, e, st.sampled_from(["~", "|"]), cfg),
        st.builds(lambda A, p, c: mk("bad-power", f"{A} ** {p}", c), e, st.sampled_from(["1.5", "b", "'2'", "(a + b)", "log(a)", "2.0", "-1"]), cfg),
        st.builds(lambda A, B, c: mk("missing-operator", f"{A} {B}", c), e, e, cfg),
        st.builds(lambda A, B, c: mk("literal-term", f"{A} + {B}", c), e, st.sampled_from(["2", "3.5", "'x'", '"y"']), cfg),
        st.builds(lambda A, B, i: mk("disabled-tilde", f"{A} ~ {B}", {"intercept": i, "flags": ["MULTIPART", "MULTISTAGE"]}), e, e, st.booleans()),
        st.builds(lambda A, B, i: mk("disabled-bar", f"{A} | {B}", {"intercept": i, "flags": ["TWOSIDED", "MULTISTAGE"]}), e, e, st.booleans()),
        st.builds(lambda A, B, i: mk("disabled-multistage", f"[{A} ~ {B}]", {"intercept": i, "flags": ["TWOSIDED", "MULTIPART"]}), e, e, st.booleans()),
        st.builds(lambda A, B, c: mk("unbalanced", f"({A} + {B}", c), e, e, cfg),
        st.builds(lambda A, B, c: mk("unbalanced", f"{A} + {B})", c), e, e, cfg),
        # brackets of different kinds closing each other (the counts balance)
        st.builds(lambda A, B, C, c: mk("mismatched-brackets", f"({A} + {B}] - {C}", c), e, e, e, cfg),
        st.builds(lambda A, B, C, c: mk("mismatched-brackets", f"{C} : [{A} + {B})", c), e, e, e, cfg),
        st.builds(lambda A, B, c: mk("mismatched-brackets", f"{A} ~ ({B} + ({A}])", c), e, e, cfg),
    )


# ------------------------------------------------------------- signs after tighter operators


def check_signs_after_tight(case) -> Outcome:
    from formulaic import Formula
    from formulaic.errors import FormulaParsingError

    out = Outcome()
    out.nontrivial = True
    A, B, op, run, icpt, ws = case["A"], case["B"], case["op"], case["run"], case["intercept"], case["ws"]
    parser = libio.parser_for({"intercept": icpt})
    s = f"{A}{ws}{op}{ws}{run}{ws}{B}"
    alt = f"{A} {op} ({run}{B})"
    out.label("sign-after:" + op)
    try:
        f = Formula(s, _parser=parser)
    except FormulaParsingError:
        out.rejected = True
        return out
    try:
        f2 = Formula(alt, _parser=parser)
    except FormulaParsingError:
        out.fail("sign-after-tight-operator", f"{s!r} accepted as {libio.terms_json(f)} but {alt!r} is rejected", op=op)
        return out
    if libio.normalize_terms(libio.terms_json(f), False) != libio.normalize_terms(libio.terms_json(f2), False):
        out.fail(
            "sign-after-tight-operator",
            f"{s!r} read as {libio.terms_json(f)}; the only documented reading is {alt!r} = {libio.terms_json(f2)}",
            op=op,
        )
    return out


def gen_signs():
    e = G.expr(max_leaves=3, allow_unary=False, allow_literals=False).map(_plain)
    return st.builds(
        lambda A, B, op, run, i, ws: {"A": A, "B": B, "op": op, "run": run, "intercept": i, "ws": ws},
        e, e, st.sampled_from(["*", "/", ":", "%in%", "~", "|"]), G.sign_run(), st.booleans(), st.sampled_from(["", " ", "  "]),
    )


def gen_grammar(max_leaves):
    return st.builds(
        lambda t, ws, sp, c: {"tree": t, "ws": ws, "spells": sp, "cfg": c},
        G.structured(allow_dot=True, max_leaves=max_leaves),
        st.lists(st.integers(0, 5), max_size=6),
        st.lists(G.sign_run(), max_size=3),
        config,
    )


def gen_dot_twosided():
    """Two-sided formulas whose right-hand side uses `.` (often right after a sign run that fuses with the tilde),
    with the available variables supplied: `.` must exclude exactly the variables used on the left."""
    small = G.expr(max_leaves=3, rich=False, allow_unary=False, allow_literals=False)
    atom = st.one_of(st.sampled_from(G.NAMES).map(lambda n: ["n", n]), st.just(["1"]))
    rhs = st.one_of(
        st.sampled_from([["b", "+", ["0"], ["."]], ["b", "-", ["."], ["1"]], ["b", "+", ["."], ["0"]]]),
        st.tuples(G.sign_run(), atom, st.sampled_from(["+", "-"])).map(lambda t: ["b", t[2], ["u", t[0], t[1]], ["."]]),
        st.tuples(G.sign_run(), atom).map(lambda t: ["b", "+", ["u", t[0], ["."]], t[1]]),
        st.tuples(atom, st.sampled_from(["+", "-", ":", "*"])).map(lambda t: ["b", t[1], ["."], t[0]]),
        st.just(["."]),
    )
    return st.builds(
        lambda l, r, ws, icpt, flags, extra: {
            "tree": {"lhs": [l], "rhs": [r], "tilde": True}, "ws": ws, "spells": [],
            "cfg": {"intercept": icpt, "flags": flags, "avail": sorted(set(R.variables_of(l)) | set(extra))},
        },
        small, rhs, st.lists(st.integers(0, 5), max_size=4), st.booleans(),
        st.sampled_from([["TWOSIDED"], ["TWOSIDED", "MULTIPART"], ["TWOSIDED", "MULTIPART", "MULTISTAGE"]]),
        st.lists(st.sampled_from(G.NAMES + ["y", "z"]), unique=True, max_size=4),
    )


def gen_assoc_chains():
    """Chains of 3-5 operands joined by operators of one precedence group ({+,-}, {*,/,%in%}, {:}), nested to the left
    (rendered without parentheses: associativity decides) or to the right (rendered with them)."""
    name = st.sampled_from(G.NAMES[:5]).map(lambda n: ["n", n])
    group = st.sampled_from([["*", "/", "%in%"], ["*", "/", "%in%"], ["+", "-"], [":"], ["*", "%in%"], ["/", "%in%"]])

    @st.composite
    def strat(draw):
        ops_pool = draw(group)
        k = draw(st.integers(3, 5))
        operands = [draw(name) for _ in range(k)]
        ops = [draw(st.sampled_from(ops_pool)) for _ in range(k - 1)]
        if draw(st.booleans()):
            tree = operands[0]
            for o, x in zip(ops, operands[1:]):
                tree = ["b", o, tree, x]
        else:
            tree = operands[-1]
            for o, x in zip(reversed(ops), reversed(operands[:-1])):
                tree = ["b", o, x, tree]
        if draw(st.integers(0, 3)) == 0:
            tree = ["b", "+", tree, draw(name)]
        if draw(st.integers(0, 3)) == 0:
            # the same interaction written in both factor orders, over names that only differ in how digits are
            # padded (x1 / x01 / x001) or ordered (x2 / x10): one term, whichever way the factors are sorted
            a_, b_ = draw(st.permutations(["x1", "x01", "x001", "x2", "x10"]))[:2]
            pair = ["b", draw(st.sampled_from(["+", "-"])), ["b", ":", ["n", a_], ["n", b_]], ["b", ":", ["n", b_], ["n", a_]]]
            tree = ["b", "+", tree, pair] if draw(st.booleans()) else ["b", "+", pair, tree]
        return {"tree": {"lhs": None, "rhs": [tree], "tilde": False}, "ws": draw(st.lists(st.integers(0, 5), max_size=3)), "spells": [],
                "cfg": {"intercept": draw(st.booleans()), "flags": ["TWOSIDED", "MULTIPART"], "avail": None}}

    return strat()


def gen_specforms():
    return st.builds(
        lambda t, ws: {"tree": t, "ws": ws, "spells": []},
        G.structured(allow_dot=False, max_leaves=6),
        st.lists(st.integers(0, 5), max_size=3),
    )


N = {"quick": (2500, 800, 500, 800, 600, 400, 500), "thorough": (40000, 8000, 6000, 8000, 6000, 5000, 6000)}
BUDGET_S = {"quick": 60, "thorough": 1500}


def campaigns(tier, shard=0, nshards=1):
    n = N[tier]
    return [
        Campaign("grammar", gen_grammar(10), check_grammar, n[0]),
        Campaign("dot-twosided", gen_dot_twosided(), check_grammar, n[5]),
        Campaign("assoc-chains", gen_assoc_chains(), check_grammar, n[6]),
        Campaign("identities", gen_identity(), check_identity, n[1]),
        Campaign("specforms", gen_specforms(), check_specforms, n[2]),
        Campaign("reject", gen_reject(), check_reject, n[3]),
        Campaign("signs-after-tight", gen_signs(), check_signs_after_tight, n[4]),
    ]
