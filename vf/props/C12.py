"""
C12 - spline transforms reproduce the mathematical bases they name.
"""

from __future__ import annotations

import numpy as np
from hypothesis import strategies as st

from ..core import Campaign, Outcome
from ..ref import splines as RS

RULE = (
    "bs: x from default_rng(drawn seed) (5-60 points, optional rounding for ties, optional NaNs, uniform/normal/"
    "offset-scaled), degree 0-5, df from its minimum upward or explicit inner knots (incl. repeated and boundary-equal "
    "ones), explicit or data bounds, include_intercept, all 5 extrapolation modes, plus a follow-up vector with points "
    "below/at/above the bounds evaluated with the recorded _state. Oracle: textbook Cox-de Boor recursion and scipy "
    "BSpline on the recorded knot vector; non-negativity, partition of unity inside the bounds, column count = df, "
    "recorded inner knots = nanquantile at equally spaced probabilities, mode semantics. cr/cc: df from the documented "
    "minimum or explicit knots, bounds, constraints None/'center'/explicit, modes; oracle: scipy CubicSpline natural / "
    "periodic cardinal functions (linear continuation / wrapping), identity at the recorded knots, zero column means "
    "under 'center', constraint absorption. Non-trivial = (degree>=1 with >=1 inner knot) or a follow-up vector with "
    "out-of-range points or a constraint; distinct by (parameters, data seed)."
)
ASSUMPTIONS = [
    "absolute tolerance 1e-8 on basis values for data scaled to O(1..1e3); knot multiplicity <= degree",
    "behaviour for constant x (zero-width bounds) is not asserted",
]
TOL = 1e-8


def make_x(c):
    rng = np.random.default_rng(c["seed"])
    n = c["n"]
    if c["dist"] == "uniform":
        x = rng.uniform(0, 10, n)
    elif c["dist"] == "normal":
        x = rng.normal(5, 2, n)
    elif c["dist"] == "tight":
        # small spread relative to magnitude (timestamps, years)
        x = 1.0e4 + rng.uniform(0, 1, n)
    elif c["dist"] == "tiny":
        x = rng.uniform(0, 1, n) * 1e-9
    else:
        x = 1000.0 + rng.uniform(0, 10, n) * 50
    if c.get("round") is not None and c["dist"] not in ("tight", "tiny"):
        x = np.round(x, c["round"])
    if np.ptp(x) == 0:
        x[0] += 1.0
    x = x.astype(float)
    for p in c.get("nan", []):
        x[p % n] = np.nan
    if np.all(np.isnan(x)):
        x[0] = 1.0
    return x


def span(x):
    return float(np.nanmin(x)), float(np.nanmax(x))


def as_matrix(res, n):
    cols = [np.asarray(res[k], dtype=float) for k in res]
    return np.column_stack(cols) if cols else np.zeros((n, 0))


def check_bs(case) -> Outcome:
    from formulaic.transforms.basis_spline import basis_spline as bs

    out = Outcome()
    x = make_x(case)
    n = len(x)
    k = case["degree"]
    icpt = case["include_intercept"]
    mode = case["extrapolation"]
    lo0, hi0 = span(x)
    lb = ub = None
    if case["bounds"] == "inner":
        lb, ub = lo0 + 0.2 * (hi0 - lo0), hi0 - 0.15 * (hi0 - lo0)
    elif case["bounds"] == "outer":
        lb, ub = lo0 - 0.1 * (hi0 - lo0), hi0 + 0.2 * (hi0 - lo0)
    elif case["bounds"] == "inner-lower":
        # only one bound is given, the other one comes from the data
        lb = lo0 + 0.2 * (hi0 - lo0)
    elif case["bounds"] == "inner-upper":
        ub = hi0 - 0.15 * (hi0 - lo0)
    elif case["bounds"] == "zero":
        # an explicit bound that is exactly 0 (falsy)
        if hi0 <= 0:
            lb, ub = lo0 - 0.1 * (hi0 - lo0), 0.0
        else:
            lb, ub = 0.0, hi0 + (0.1 * (hi0 - lo0) if lo0 > 0 else 0.0)
    lo, hi = (lb if lb is not None else lo0), (ub if ub is not None else hi0)
    if not hi0 > lo0 or not hi > lo:
        out.label("excluded:constant-data")
        return out
    kwargs = dict(degree=k, include_intercept=icpt, extrapolation=mode)
    if lb is not None:
        kwargs.update(lower_bound=lb)
    if ub is not None:
        kwargs.update(upper_bound=ub)
    inner = None
    if case["df_extra"] is not None:
        df = k + (1 if icpt else 0) + case["df_extra"]
        if df == 0:
            df, inner = None, []  # degree 0 without intercept and no knots: nothing requested
        else:
            kwargs["df"] = df
    else:
        df = None
        fr = sorted(case["knot_fracs"])
        inner = [lo if f == 0.0 else (hi if f == 1.0 else lo + f * (hi - lo)) for f in fr]
        # multiplicity must not exceed the degree (else the basis is discontinuous by design; still valid, but
        # scipy's design matrices disagree about the value exactly at such a knot)
        ded = []
        for v in inner:
            if ded.count(v) < max(k, 1):
                ded.append(v)
        inner = ded
        kwargs["knots"] = list(inner)
    feat = dict(degree=k, mode=mode, df=df is not None, bounds=case["bounds"], nan=bool(case.get("nan")))
    out.label(f"degree:{k}", "mode:" + mode, "df" if df is not None else "knots", "bounds:" + case["bounds"])
    oob = (x < lo) | (x > hi)
    has_oob = bool(np.nansum(oob))
    state = {}
    xin = x
    if case.get("as_int") and not np.isnan(x).any() and np.all(x == np.round(x)):
        # the same values handed over with an integer dtype (bounds and knots stay non-integers)
        xin = x.astype(np.int64)
        out.label("integer-dtype-input")
    try:
        res = bs(xin, _state=state, **kwargs)
    except ValueError as e:
        if mode == "raise" and has_oob:
            out.label("raise-ok")
            out.rejected = True
            out.nontrivial = True
            return out
        if "no data points are available" in str(e):
            out.rejected = True
            return out
        out.fail("bs-unexpected-valueerror", f"{kwargs} x={x.tolist()}: {e}", **feat)
        return out
    if mode == "raise" and has_oob:
        out.fail("bs-raise-mode-did-not-raise", f"{kwargs}: out-of-range values accepted", **feat)
        return out
    B = as_matrix(res, n)
    t = state["knots"]
    ninner = len(t) - 2 * (k + 1)
    out.nontrivial = (k >= 1 and ninner >= 1) or has_oob
    if abs(state["lower_bound"] - lo) > 1e-12 or abs(state["upper_bound"] - hi) > 1e-12:
        out.fail("bs-recorded-bounds", f"{kwargs}: state {state['lower_bound']},{state['upper_bound']} vs {lo},{hi}", **feat)
    if list(t) != sorted(t) or t[: k + 1] != [t[0]] * (k + 1) or t[-(k + 1) :] != [t[-1]] * (k + 1) or abs(t[0] - lo) > 1e-12 or abs(t[-1] - hi) > 1e-12:
        out.fail("bs-knot-vector-shape", f"{kwargs}: knots {t}", **feat)
        return out
    if df is not None:
        ncols_exp = df
        nk = df - k - (1 if icpt else 0)
        src = x[~oob]  # knots always come from the data within the bounds
        exp_inner = np.nanquantile(src, np.linspace(0, 1, nk + 2))[1:-1]
        got_inner = np.asarray(t[k + 1 : len(t) - (k + 1)])
        if len(got_inner) != nk or not np.allclose(got_inner, exp_inner, rtol=1e-12, atol=1e-12):
            out.fail("bs-quantile-knots", f"{kwargs}: inner knots {got_inner.tolist()} vs quantiles {exp_inner.tolist()}", **feat)
    else:
        ncols_exp = len(inner) + k + (1 if icpt else 0)
        if len(t) - 2 * (k + 1) != len(inner) or not np.allclose(t[k + 1 : len(t) - (k + 1)], inner):
            out.fail("bs-explicit-knots-recorded", f"{kwargs}: {t}", **feat)
    if B.shape != (n, ncols_exp):
        out.fail("bs-column-count", f"{kwargs}: shape {B.shape}, expected {ncols_exp} columns", **feat)
        return out

    def reference(xv, mode_):
        """Expected basis (all columns incl. intercept column) for values xv under the mode."""
        xv = np.asarray(xv, dtype=float)
        o = (xv < lo) | (xv > hi)
        if mode_ == "clip":
            R = RS.bspline_basis(np.clip(xv, lo, hi), t, k)
        elif mode_ == "extend":
            R = RS.bspline_scipy(xv, t, k, extrapolate=True)
            R[np.isnan(xv)] = np.nan
        else:
            R = RS.bspline_basis(xv, t, k)
            if mode_ == "na":
                R[o] = np.nan
            elif mode_ == "zero":
                R[o] = 0.0
        return R

    def compare(Bm, xv, what):
        R = reference(xv, mode)
        Rc = R if icpt else R[:, 1:]
        inb = ~(((xv < lo) | (xv > hi)) | np.isnan(xv))
        # a knot of multiplicity > degree+1 (data-derived quantile knots piling up on a bound) makes the spline
        # space degenerate exactly at that point and the value there is a matter of convention: not compared
        over = [v for v in set(t) if t.count(v) > k + 1]
        if over:
            at = np.isin(xv, over)
            if at.any():
                out.label("skipped:points-on-over-multiple-knot")
                # ... except what holds under every convention: with the intercept column the basis is a
                # non-negative partition of unity on the closed interval [lower, upper]
                if icpt and Bm.shape == Rc.shape:
                    rows_ = Bm[at & inb]
                    if rows_.size and (not np.allclose(rows_.sum(axis=1), 1.0, atol=1e-9) or np.nanmin(rows_) < -1e-12):
                        out.fail("bs-partition-of-unity", f"{what}: {kwargs} knots={t}: rows at x in {sorted(set(xv[at & inb].tolist()))} sum to {rows_.sum(axis=1).tolist()}", **feat)
            inb = inb & ~at
        if Bm.shape != Rc.shape:
            out.fail("bs-shape-" + what, f"{kwargs}: {Bm.shape} vs {Rc.shape}", **feat)
            return
        nanrows = np.isnan(xv)
        if not np.allclose(Bm[inb], Rc[inb], atol=TOL, rtol=0):
            j = np.argwhere(~np.isclose(Bm[inb], Rc[inb], atol=TOL, rtol=0))[0]
            out.fail("bs-equals-design-matrix", f"{what}: {kwargs} knots={t}: x={xv[inb][j[0]]!r}: got {Bm[inb][j[0]].tolist()} ref {Rc[inb][j[0]].tolist()}", **feat)
        # scipy as a second, independent reference inside the bounds
        if inb.any():
            S = RS.bspline_scipy(xv[inb], t, k, extrapolate=False)
            S = S if icpt else S[:, 1:]
            if not np.allclose(Bm[inb], S, atol=TOL, rtol=0, equal_nan=True):
                out.fail("bs-equals-scipy", f"{what}: {kwargs} knots={t}", **feat)
            if Bm.shape[1] and np.nanmin(Bm[inb]) < -1e-12:
                out.fail("bs-nonnegative", f"{what}: {kwargs}: min {np.nanmin(Bm[inb])}", **feat)
            if icpt and not np.allclose(Bm[inb].sum(axis=1), 1.0, atol=1e-9):
                out.fail("bs-partition-of-unity", f"{what}: {kwargs}: row sums {Bm[inb].sum(axis=1).tolist()}", **feat)
        oo = ((xv < lo) | (xv > hi)) & ~nanrows
        if oo.any():
            if mode == "na" and not np.all(np.isnan(Bm[oo])):
                out.fail("bs-mode-na", f"{what}: {kwargs}: out-of-range rows {Bm[oo].tolist()}", **feat)
            elif mode == "zero" and not np.allclose(Bm[oo], 0):
                out.fail("bs-mode-zero", f"{what}: {kwargs}: {Bm[oo].tolist()}", **feat)
            elif mode in ("clip", "extend") and not np.allclose(Bm[oo], Rc[oo], atol=1e-6 * max(1.0, float(np.nanmax(np.abs(Rc[oo]))) if Rc[oo].size else 1.0), rtol=1e-6) and not over:
                out.fail("bs-mode-" + mode, f"{what}: {kwargs} knots={t}: x={xv[oo].tolist()} got {Bm[oo].tolist()} ref {Rc[oo].tolist()}", **feat)
        if nanrows.any() and not np.all(np.isnan(Bm[nanrows])):
            out.fail("bs-nan-propagates", f"{what}: {kwargs}: NaN input rows give {Bm[nanrows].tolist()}", **feat)

    compare(B, x, "train")
    # follow-up with the recorded state
    fol = case.get("follow")
    if fol is not None:
        rng = np.random.default_rng(fol["seed"])
        xf = np.concatenate([rng.uniform(lo - fol["spread"] * (hi - lo), hi + fol["spread"] * (hi - lo), fol["n"]), [lo, hi, (lo + hi) / 2]])
        if mode == "raise":
            xf = np.clip(xf, lo, hi)
        st2 = {kk: (list(v) if isinstance(v, list) else v) for kk, v in state.items()}
        xfin = xf
        if case.get("as_int") and mode != "raise" and abs(hi) < 1e9 and abs(lo) < 1e9:
            xf = np.round(xf)
            xfin = xf.astype(np.int64)
        res2 = bs(xfin, _state=st2, **kwargs)
        if st2 != state:
            out.fail("bs-state-changed-on-reuse", f"{kwargs}: {state} -> {st2}", **feat)
        compare(as_matrix(res2, len(xf)), xf, "follow-up")
        out.label("follow-up")
    return out


def gen_bs():
    return st.fixed_dictionaries(
        {
            "seed": st.integers(0, 10**6),
            "n": st.integers(5, 60),
            "dist": st.sampled_from(["uniform", "uniform", "normal", "offset", "tight", "tiny"]),
            "round": st.sampled_from([None, None, 0, 1]),
            "as_int": st.booleans(),
            "nan": st.one_of(st.just([]), st.just([]), st.lists(st.integers(0, 59), max_size=3)),
            "degree": st.integers(0, 5),
            "include_intercept": st.booleans(),
            "extrapolation": st.sampled_from(["raise", "clip", "na", "zero", "extend"]),
            "bounds": st.sampled_from(["data", "data", "inner", "outer", "zero", "inner-lower", "inner-upper"]),
            "df_extra": st.one_of(st.none(), st.integers(0, 6)),
            # (0.0 / 1.0: an inner knot tied to a boundary)
            "knot_fracs": st.lists(st.sampled_from([0.1, 0.25, 0.3, 0.5, 0.5, 0.75, 0.9, 0.0, 1.0]), max_size=5),
            "follow": st.one_of(st.none(), st.fixed_dictionaries({"seed": st.integers(0, 999), "n": st.integers(1, 12), "spread": st.sampled_from([0.0, 0.3, 2.0])})),
        }
    )


# ------------------------------------------------------------------ cubic splines


def check_cs(case) -> Outcome:
    from formulaic.transforms.cubic_spline import cyclic_cubic_spline as cc
    from formulaic.transforms.cubic_spline import natural_cubic_spline as cr

    out = Outcome()
    x = make_x(case)
    x = x[~np.isnan(x)]
    n = len(x)
    cyclic = case["cyclic"]
    fn = cc if cyclic else cr
    mode = case["extrapolation"]
    cons = case["constraints"]
    lo0, hi0 = span(x)
    lb = ub = None
    if case["bounds"] == "inner":
        lb, ub = lo0 + 0.2 * (hi0 - lo0), hi0 - 0.15 * (hi0 - lo0)
    elif case["bounds"] == "outer":
        lb, ub = lo0 - 0.1 * (hi0 - lo0), hi0 + 0.2 * (hi0 - lo0)
    elif case["bounds"] == "inner-lower":
        lb = lo0 + 0.2 * (hi0 - lo0)
    elif case["bounds"] == "inner-upper":
        ub = hi0 - 0.15 * (hi0 - lo0)
    elif case["bounds"] == "zero":
        if hi0 <= 0:
            lb, ub = lo0 - 0.1 * (hi0 - lo0), 0.0
        else:
            lb, ub = 0.0, hi0 + (0.1 * (hi0 - lo0) if lo0 > 0 else 0.0)
    lo, hi = (lb if lb is not None else lo0), (ub if ub is not None else hi0)
    if not hi0 > lo0 or not hi > lo:
        out.label("excluded:constant-data")
        return out
    kwargs = dict(extrapolation=mode)
    if lb is not None:
        kwargs.update(lower_bound=lb)
    if ub is not None:
        kwargs.update(upper_bound=ub)
    ncons = 0 if cons is None else 1
    if case["df_extra"] is not None:
        min_df = 1 if (cyclic or ncons) else 2
        df = min_df + case["df_extra"]
        kwargs["df"] = df
        nbasis_free = df + ncons
    else:
        df = None
        fr = sorted(set(f for f in case["knot_fracs"] if 0 < f < 1))
        kwargs["knots"] = [lo + f * (hi - lo) for f in fr]
        if case.get("knot_order") and len(fr) >= 2:
            # explicit knots need not be given in ascending order
            k_ = 1 + case["knot_order"] % (len(fr) - 1)
            kwargs["knots"] = kwargs["knots"][k_:][::-1] + kwargs["knots"][:k_]
            out.label("unsorted-knots")
        nbasis_free = len(fr) + 2 - (1 if cyclic else 0)
        if nbasis_free - ncons < 1:
            out.rejected = True
            return out
    if cons == "center":
        kwargs["constraints"] = "center"
    elif cons == "array":
        rngc = np.random.default_rng(case["seed"] + 7)
        kwargs["constraints"] = rngc.uniform(0.5, 1.5, (1, nbasis_free))
    feat = dict(kind="cc" if cyclic else "cr", mode=mode, df=df, cons=str(cons), bounds=case["bounds"], nknots=nbasis_free + (1 if cyclic else 0))
    out.label(feat["kind"], "mode:" + mode, "cons:" + str(cons), "df" if df is not None else "knots")
    oob = (x < lo) | (x > hi)
    state = {}
    try:
        xin = x
        if case.get("as_int") and np.all(x == np.round(x)) and abs(hi) < 1e9:
            xin = x.astype(np.int64)  # same values, integer dtype (bounds and knots stay non-integers)
            out.label("integer-dtype-input")
        res = fn(xin, _state=state, **kwargs)
    except ValueError as e:
        if mode == "raise" and oob.any():
            out.label("raise-ok")
            out.rejected = True
            out.nontrivial = True
            return out
        msg = str(e)
        if "Unable to compute n_inner_knots" in msg or "No data values between" in msg:
            out.rejected = True  # documented: not enough distinct data for the requested knots
            out.label("rejected:not-enough-distinct-data")
            return out
        out.fail("cs-unexpected-error", f"{feat['kind']}({kwargs}) n={n}: {type(e).__name__}: {msg[:200]}", **feat)
        return out
    if mode == "raise" and oob.any():
        out.fail("cs-raise-mode-did-not-raise", f"{kwargs}", **feat)
        return out
    M = as_matrix(res, n)
    knots = np.asarray(state["knots"], dtype=float)
    out.nontrivial = True
    if not np.all(np.diff(knots) > 0) or abs(knots[0] - lo) > 1e-12 or abs(knots[-1] - hi) > 1e-12:
        out.fail("cs-knots", f"{kwargs}: knots {knots.tolist()} bounds {(lo, hi)}", **feat)
        return out
    if np.min(np.diff(knots)) < 1e-6 * (knots[-1] - knots[0]):
        # two knots almost on top of each other relative to the range (e.g. a bound at 0 with data at 1e4 + U(0,1)):
        # the interpolation system is ill-conditioned and its solution is accurate to ~cond * eps only - not compared
        out.label("excluded:near-coincident-knots")
        out.nontrivial = False
        return out
    if len(knots) - (1 if cyclic else 0) != nbasis_free:
        out.fail("cs-knot-count", f"{kwargs}: {len(knots)} knots for {nbasis_free} free basis functions", **feat)
        return out
    if M.shape != (n, nbasis_free - ncons):
        out.fail("cs-column-count", f"{kwargs}: shape {M.shape}, expected {nbasis_free - ncons} columns", **feat)
        return out

    def free_ref(xv):
        xv = np.asarray(xv, dtype=float)
        o = (xv < lo) | (xv > hi)
        xe = np.clip(xv, lo, hi) if mode == "clip" else xv
        R = RS.cyclic_cardinal(xe, knots) if cyclic else RS.natural_cardinal(xe, knots)
        if mode == "na":
            R[o] = np.nan
        elif mode == "zero":
            R[o] = 0.0
        return R

    def compare(Mm, xv, what):
        R = free_ref(xv)
        ok = ~np.isnan(R).any(axis=1)
        if cons is None:
            if not np.allclose(Mm[ok], R[ok], atol=TOL, rtol=1e-8):
                j = np.argwhere(~np.isclose(Mm[ok], R[ok], atol=TOL, rtol=1e-8))[0]
                out.fail("cs-equals-cardinal-basis", f"{what}: {feat['kind']}({kwargs}) knots={knots.tolist()}: x={xv[ok][j[0]]!r}: got {Mm[ok][j[0]].tolist()} ref {R[ok][j[0]].tolist()}", **feat)
            if not np.all(np.isnan(Mm[~ok])) and (~ok).any():
                out.fail("cs-mode-na", f"{what}: {kwargs}", **feat)
        else:
            C = np.asarray(state["constraints"], dtype=float).reshape(1, -1)
            zero = (mode == "zero") & ((xv < lo) | (xv > hi))
            use = ok & ~zero
            if use.sum() >= R.shape[1] and np.linalg.cond(R[use]) < 1e6:
                W, *_ = np.linalg.lstsq(R[use], Mm[use], rcond=None)
                if not np.allclose(R[use] @ W, Mm[use], atol=1e-7):
                    out.fail("cs-constrained-in-span", f"{what}: {feat['kind']}({kwargs})", **feat)
                elif np.linalg.matrix_rank(R[use]) == R.shape[1] and np.linalg.cond(R[use]) < 1e6:
                    if not np.allclose(C @ W, 0, atol=1e-7):
                        out.fail("cs-constraint-absorbed", f"{what}: {feat['kind']}({kwargs}): C.W = {(C @ W).tolist()}", **feat)
                    if not np.allclose(W.T @ W, np.eye(W.shape[1]), atol=1e-7):
                        out.fail("cs-constraint-orthonormal-complement", f"{what}: {feat['kind']}({kwargs})", **feat)

    if cons is not None and mode in ("na", "zero") and oob.any():
        # the centering constraint is computed from rows that the mode then blanks: "zero mean on the training
        # data" has no agreed meaning there - only absence of a crash is required
        out.label("excluded:constraint-with-na/zero-and-oob-training-rows")
        out.nontrivial = False
        return out
    compare(M, x, "train")
    if cons == "center":
        scale = max(1.0, float(np.abs(M).max()))
        if not np.allclose(M.mean(axis=0), 0, atol=1e-9 * scale):
            out.fail("cs-centered-zero-mean", f"{feat['kind']}({kwargs}): column means {M.mean(axis=0).tolist()}", **feat)
    if cons is None:
        # identity at the recorded knots
        st2 = dict(state)
        K = as_matrix(fn(knots if not cyclic else knots[:-1], _state=st2, **kwargs), len(knots) - (1 if cyclic else 0))
        if not np.allclose(K, np.eye(K.shape[0]), atol=1e-8):
            out.fail("cs-identity-at-knots", f"{feat['kind']}({kwargs}) knots={knots.tolist()}: {K.tolist()}", **feat)
    # missing values: a NaN input row gives a NaN basis row and changes nothing else (explicit knots and bounds, so
    # that removing a value cannot move them); NaN is not "out of bounds" for extrapolation="raise"
    if df is None and case.get("nan_pos") is not None and n >= 3:
        x2 = x.copy()
        p_ = case["nan_pos"] % n
        x2[p_] = np.nan
        kw2 = dict(kwargs, lower_bound=lo, upper_bound=hi)
        try:
            M_nan = as_matrix(fn(x2, _state={}, **kw2), n)
            M_ref = as_matrix(fn(x, _state={}, **kw2), n)
        except Exception as e:
            if not (mode == "raise" and oob.any()):
                out.fail("cs-nan-input-raises", f"{feat['kind']}({kw2}) with a NaN at position {p_}: {type(e).__name__}: {str(e)[:120]}", **feat)
            M_nan = None
        if M_nan is not None and not cons:
            keep_ = np.arange(n) != p_
            if M_nan.shape != M_ref.shape or not np.all(np.isnan(M_nan[p_])) or not np.allclose(M_nan[keep_], M_ref[keep_], atol=1e-12, rtol=0, equal_nan=True):
                out.fail("cs-nan-propagates", f"{feat['kind']}({kw2}): NaN at position {p_} gives row {M_nan[p_].tolist() if M_nan.shape == M_ref.shape else M_nan.shape}; other rows changed: {not np.allclose(M_nan[keep_], M_ref[keep_], atol=1e-12, rtol=0, equal_nan=True) if M_nan.shape == M_ref.shape else 'shape'}", **feat)
        out.label("nan-row")
    fol = case.get("follow")
    if fol is not None:
        rng = np.random.default_rng(fol["seed"])
        xf = np.concatenate([rng.uniform(lo - fol["spread"] * (hi - lo), hi + fol["spread"] * (hi - lo), fol["n"]), [lo, hi]])
        if mode == "raise":
            xf = np.clip(xf, lo, hi)
        st3 = dict(state)
        xfin = xf
        if case.get("as_int") and mode != "raise" and abs(hi) < 1e9 and abs(lo) < 1e9:
            xf = np.round(xf)
            xfin = xf.astype(np.int64)
        M2 = as_matrix(fn(xfin, _state=st3, **kwargs), len(xf))
        if not all(np.array_equal(np.asarray(st3[kk]), np.asarray(state[kk])) for kk in state if state[kk] is not None):
            out.fail("cs-state-changed-on-reuse", f"{kwargs}", **feat)
        compare(M2, xf, "follow-up")
        out.label("follow-up")
    return out


def gen_cs():
    return st.fixed_dictionaries(
        {
            "seed": st.integers(0, 10**6),
            "n": st.integers(6, 50),
            "dist": st.sampled_from(["uniform", "uniform", "normal", "offset", "tight", "tiny"]),
            "round": st.sampled_from([None, None, None, 1]),
            "cyclic": st.booleans(),
            "as_int": st.booleans(),
            "nan_pos": st.one_of(st.none(), st.integers(0, 59)),
            "extrapolation": st.sampled_from(["raise", "clip", "na", "zero", "extend", "extend"]),
            "knot_order": st.sampled_from([0, 0, 1, 2, 3]),
            "bounds": st.sampled_from(["data", "data", "inner", "outer", "zero", "inner-lower", "inner-upper"]),
            "constraints": st.sampled_from([None, None, "center", "center", "array"]),
            "df_extra": st.one_of(st.none(), st.integers(0, 5), st.integers(0, 1)),
            "knot_fracs": st.lists(st.sampled_from([0.1, 0.25, 0.3, 0.5, 0.6, 0.75, 0.9]), max_size=5),
            "follow": st.one_of(st.none(), st.fixed_dictionaries({"seed": st.integers(0, 999), "n": st.integers(1, 12), "spread": st.sampled_from([0.0, 0.3, 1.7])})),
        }
    )


N = {"quick": (4000, 3000), "thorough": (30000, 24000)}
BUDGET_S = {"quick": 70, "thorough": 1500}


def campaigns(tier, shard=0, nshards=1):
    n = N[tier]
    return [Campaign("bs", gen_bs(), check_bs, n[0]), Campaign("cubic", gen_cs(), check_cs, n[1])]
