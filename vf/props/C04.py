"""
C04 - a model spec replays the recorded encoding row by row on any data.
"""

from __future__ import annotations

import pickle

import numpy as np
from hypothesis import strategies as st

from ..core import Campaign, Outcome

RULE = (
    "Training frames (8-40 rows from default_rng(drawn seed), no nulls; numeric columns in general position, "
    "text/categorical columns with 2-4 levels incl. a category dtype with declared order) x formulas of 1-4 terms of "
    "1-2 factors drawn from stateful transforms (scale, center, standardize, poly, bs with df/degree/extrapolation, "
    "cr, cc with and without constraints='center', C(col, contr.*)), stateless ones (log, np.exp, I(), {...}, hashed) "
    "and plain columns; outputs pandas/numpy/sparse, rank reduction on/off. Follow-up histories of 1-4 frames, each "
    "made of training rows (subsets, duplicates, permutations) plus fresh rows inside the training range / level sets, "
    "including frames lacking levels and single-row frames. Oracle: (1) the spec regenerates the training matrix; "
    "(2) on every follow-up frame: identical names, and row i == the result on the one-row frame D.iloc[[i]] (and "
    "training rows reproduce their training values); (3) re-applying the spec to an earlier frame later gives the "
    "identical matrix; (4) pickled spec / pickled ModelMatrix behave identically; entry points spec.get_model_matrix, "
    "model_matrix(spec, D), model_matrix(mm, D). Non-trivial = >=1 stateful transform and a follow-up frame whose own "
    "statistics differ (different rows, missing level or single row); distinct by (formula, data seed, history)."
)
ASSUMPTIONS = [
    "lag() is excluded by the statement; follow-up values stay inside the training range (bs default extrapolation raises outside)",
    "row-wise comparisons use rtol/atol 1e-10 (vectorised vs single-row arithmetic)",
]

STATEFUL = [
    "scale(x)", "center(y)", "standardize(z)", "scale(x, ddof=0)", "scale(y, center=False)", "poly(x, 2)", "poly(y, 3)",
    "bs(x, df=4)", "bs(y, df=5, degree=2)", "bs(z, df=4, extrapolation='clip')", "bs(x, df=3, degree=1, include_intercept=True)",
    "cr(x, df=3)", "cc(y, df=3)", "cr(z, df=4, constraints='center')", "cc(x, df=3, constraints='center')", "cs(y, df=4)",
    "C(A, contr.sum)", "C(B, contr.helmert)", "C(A, contr.poly)", "C(G)", "C(B, contr.treatment('x'))", "C(A, contr.diff)",
    "A", "B", "center(v)", "scale(v)", "standardize(v)", "C(B, contr.sum)", "C(B, contr.poly)",
    # stateful transforms wrapped around multi-column (integer-keyed) bases, and a quoted name whose sanitised
    # form collides with another column
    # explicit bounds narrower than the data: replayed rows may all lie outside them
    "bs(x, df=4, lower_bound=2, upper_bound=8, extrapolation='clip')", "bs(x, df=3, lower_bound=3, upper_bound=7, extrapolation='zero')",
    "cr(x, df=3, lower_bound=2, upper_bound=8, extrapolation='clip')", "cc(x, df=3, lower_bound=2.5, upper_bound=7.5, extrapolation='clip')",
    "center(bs(x, df=4))", "scale(cr(z, df=3))", "scale(poly(y, 2))", "center(`a b`)", "scale(`a b`):a_b", "scale(`a b`)", "standardize(`a b`)",
    # two different quoted names with the same sanitised alias, inside the same transform
    "center(`a-b`)", "scale(`a-b`)",
    # the same stateful call written twice inside one factor
    "I(center(x) * center(x))", "{scale(y) + scale(y) * 2}",
]
STATELESS = ["2.5", "0.5", "3", "log(w)", "np.exp(y)", "I(x * y)", "{x + 1}", "hashed(A, levels=3)", "hashed(H, levels=16)", "hashed(H, levels=8):x", "x", "y", "z", "w", "np.log(w + 1)"]
LEVELS = {"A": ["b", "a", "d", "c"], "B": ["y", "x", "z"], "G": [3, 1, 2]}


def train_frame(seed, n):
    import pandas as pd

    rng = np.random.default_rng(seed)
    data = {
        "x": rng.uniform(0, 10, n),
        "y": rng.normal(0, 2, n),
        "z": rng.uniform(1, 100, n),
        "w": rng.uniform(0.5, 20, n),
        # exact zero mean (recorded centre == 0.0), in random order
        "v": rng.permutation(np.arange(n, dtype=float) - (n - 1) / 2.0),
        "a b": rng.uniform(-3, 3, n),
        "a_b": rng.uniform(1, 2, n),
        "a-b": rng.uniform(20, 30, n),
    }
    cats = {}
    for c, lv in LEVELS.items():
        k = int(rng.integers(2, len(lv) + 1))
        vals = [lv[int(i)] for i in rng.integers(0, k, n)]
        for j in range(k):  # every level observed at least once
            vals[j % n] = lv[j]
        cats[c] = (vals, lv[:k])
    df = pd.DataFrame(data)
    df["A"] = pd.Series(cats["A"][0], dtype=object)
    df["B"] = pd.Categorical(cats["B"][0], categories=cats["B"][1])
    df["G"] = np.array(cats["G"][0], dtype="int64")
    # a text column with missing values (hashed() keeps them as a level of their own)
    df["H"] = pd.Series([[None, "p", "q", "r", "s", None][int(i)] for i in rng.integers(0, 6, n)], dtype=object)
    return df


def follow_frame(train, h):
    import pandas as pd

    rng = np.random.default_rng(h["seed"])
    rows = [r % len(train) for r in h["rows"]]
    parts = [train.iloc[rows]] if rows else []
    k = h["fresh"] if not (h.get("index") == "labels" and rows) else 0  # "labels": training rows only, original labels kept
    if k or not rows:
        k = max(k, 1)
        fresh = {}
        for c in ["x", "y", "z", "w", "v", "a b", "a_b", "a-b"]:
            lo, hi = train[c].min(), train[c].max()
            fresh[c] = rng.uniform(lo, hi, k)
        f = pd.DataFrame(fresh)
        f["A"] = pd.Series([sorted(train["A"].unique())[int(i) % train["A"].nunique()] for i in rng.integers(0, 10, k)], dtype=object)
        f["B"] = pd.Categorical([list(train["B"].cat.categories)[int(i) % len(train["B"].cat.categories)] for i in rng.integers(0, 10, k)], categories=list(train["B"].cat.categories))
        f["G"] = np.array([sorted(train["G"].unique())[int(i) % train["G"].nunique()] for i in rng.integers(0, 10, k)], dtype="int64")
        f["H"] = pd.Series([[None, "p", "q", "r", "s", None][int(i)] for i in rng.integers(0, 6, k)], dtype=object)
        parts.append(f)
    keep_labels = h.get("index") == "labels" and rows and not (k or not rows)
    d = pd.concat(parts, ignore_index=not keep_labels)
    cats = list(train["B"].cat.categories)
    if h.get("recat"):
        cats = sorted(cats)  # same set of categories, another declared order
    d["B"] = pd.Categorical(d["B"], categories=cats)
    if h.get("index") == "odd":
        d.index = [f"r{i * 3 % 7}_{i}" for i in range(len(d))]
    return d


def dense(m, ncol):
    a = m.toarray() if hasattr(m, "toarray") else (m.to_numpy() if hasattr(m, "to_numpy") else np.asarray(m))
    return np.asarray(a, dtype=float).reshape(-1, ncol)


def check_case(case) -> Outcome:
    from ..libio import model_matrix

    out = Outcome()
    train = train_frame(case["seed"], case["n"])
    terms = [":".join(t) for t in case["terms"] if any(not f[:1].isdigit() for f in t)] or ["x"]
    seen_nonlit = set()
    uniq = []
    for t in terms:  # one scaling per term (the parser rejects a term seen with two scalings)
        k = frozenset(f for f in t.split(":") if not f[:1].isdigit())
        if k not in seen_nonlit:
            seen_nonlit.add(k)
            uniq.append(t)
    terms = uniq
    s = ("" if case["intercept"] else "0 + ") + " + ".join(dict.fromkeys(terms))
    output, efr = case["output"], case["efr"]
    feat = dict(output=output, efr=efr)
    stateful = [f for t in case["terms"] for f in t if f in STATEFUL]
    for f in sorted({f.split("(")[0] for f in stateful}):
        out.label("tf:" + f)
    try:
        mm = model_matrix(s, train, output=output, ensure_full_rank=efr, cluster_by="numerical_factors" if case.get("cluster") else "none")
    except Exception as e:
        if "no data points are available for knot selection" in str(e) or "distinct knots" in str(e):
            # explicit spline bounds that exclude (nearly) every training value: the fit is rightly refused
            out.rejected = True
            out.label("rejected:no-training-data-within-bounds")
            return out
        raise
    spec = mm.model_spec
    if case.get("cluster"):
        out.label("cluster_by")
    names = list(spec.column_names)
    nc = len(names)
    M0 = dense(mm, nc)
    state_snapshot = pickle.dumps(spec)

    def same(a, b, tol=1e-10):
        return a.shape == b.shape and np.allclose(a, b, rtol=tol, atol=tol, equal_nan=True)

    # (1) regenerate training matrix, through every entry point
    for how, fn in (
        ("spec.get_model_matrix", lambda d: spec.get_model_matrix(d, context={})),
        ("model_matrix(spec)", lambda d: model_matrix(spec, d)),
        ("model_matrix(mm)", lambda d: model_matrix(mm, d)),
    ):
        r = fn(train)
        if list(r.model_spec.column_names) != names or not same(dense(r, nc), M0, 1e-12):
            out.fail("regenerates-training-matrix", f"{s!r} via {how}", **feat, how=how)
    # (4) pickling
    spec_p = pickle.loads(state_snapshot)
    mm_p = pickle.loads(pickle.dumps(mm))
    if not same(dense(spec_p.get_model_matrix(train, context={}), nc), M0, 1e-12):
        out.fail("pickled-spec-regenerates", f"{s!r}", **feat)
    if list(mm_p.model_spec.column_names) != names or not same(dense(mm_p, nc), M0, 0):
        out.fail("pickled-model-matrix", f"{s!r}", **feat)
    # follow-up history
    results = []
    differs = False
    for h in case["history"]:
        D = follow_frame(train, h)
        try:
            R = spec.get_model_matrix(D, context={})
        except Exception as e:
            out.fail("follow-up-raises", f"{s!r} on follow-up {h}: {type(e).__name__}: {str(e)[:200]}", **feat)
            return out
        if list(R.model_spec.column_names) != names or (output == "pandas" and list(R.columns) != names):
            out.fail("follow-up-names", f"{s!r}: {list(R.model_spec.column_names)} vs {names}", **feat)
            continue
        RM = dense(R, nc)
        if RM.shape[0] != len(D):
            out.fail("follow-up-rows", f"{s!r}: {RM.shape[0]} rows for {len(D)} input rows", **feat)
            continue
        results.append((h, D, RM))
        rows = [r % len(train) for r in h["rows"]]
        if len(D) == 1 or h["fresh"] or len(set(rows)) < len(train):
            differs = True
        # training rows reproduce their training values
        if rows and not same(RM[: len(rows)], M0[rows]):
            bad = [names[j] for j in range(nc) if not np.allclose(RM[: len(rows), j], M0[rows, j], rtol=1e-10, atol=1e-10, equal_nan=True)]
            out.fail("training-rows-reproduced", f"{s!r}: rows {rows} of the training data, evaluated inside follow-up {h}, differ in columns {bad}", **feat, tf=",".join(sorted({b.split('(')[0].split('[')[0] for b in bad}))[:60])
        # row i depends only on row i
        for i in sorted(set([0, len(D) - 1, len(D) // 2])):
            one = D.iloc[[i]]
            r1 = dense(spec.get_model_matrix(one, context={}), nc)
            if not same(r1, RM[[i]]):
                bad = [names[j] for j in range(nc) if not np.allclose(r1[:, j], RM[[i], j], rtol=1e-10, atol=1e-10, equal_nan=True)]
                out.fail("row-depends-only-on-own-row", f"{s!r}: row {i} of follow-up {h}: alone {r1.tolist()} vs in frame {RM[[i]].tolist()} (columns {bad})", **feat, tf=",".join(sorted({b.split('(')[0].split('[')[0] for b in bad}))[:60])
                break
        # pickled spec agrees
        if not same(dense(spec_p.get_model_matrix(D, context={}), nc), RM, 1e-12):
            out.fail("pickled-spec-follow-up", f"{s!r} follow-up {h}", **feat)
        if not same(dense(model_matrix(mm_p, D), nc), RM, 1e-12):
            out.fail("pickled-model-matrix-follow-up", f"{s!r} follow-up {h}", **feat)
    # (5) a subset of the spec (one term at a time, last term first) replays the recorded encoding of that term
    if len(spec.formula) >= 2:
        Dsub, RMsub = (results[0][1], results[0][2]) if results else (train, M0)
        for term in reversed(list(spec.formula)):
            idx = list(spec.term_indices[term])
            try:
                sub = spec.subset([term])
                S = sub.get_model_matrix(Dsub, context={})
            except Exception as e:
                out.fail("subset-replay-raises", f"{s!r}: subset [{term}]: {type(e).__name__}: {str(e)[:160]}", **feat)
                break
            SM = dense(S, len(idx))
            if list(S.model_spec.column_names) != [names[j] for j in idx] or not same(SM, RMsub[:, idx]):
                out.fail("subset-replays-recorded-encoding", f"{s!r}: subset [{term}] gives {list(S.model_spec.column_names)} / differs from the full spec's columns {[names[j] for j in idx]} on the same frame", **feat, tf=str(term).split("(")[0][:20])
                break
    # (3) re-apply to earlier frames, in reverse order: identical
    for h, D, RM in reversed(results):
        again = dense(spec.get_model_matrix(D, context={}), nc)
        if not same(again, RM, 0):
            out.fail("reapplication-identical", f"{s!r}: follow-up {h} re-evaluated later differs", **feat)
    if pickle.dumps(pickle.loads(state_snapshot)) != pickle.dumps(pickle.loads(pickle.dumps(spec))):
        out.label("spec-pickle-bytes-changed")
    again0 = dense(spec.get_model_matrix(train, context={}), nc)
    if not same(again0, M0, 0):
        out.fail("spec-behaviour-changed-by-use", f"{s!r}: the training matrix regenerated after the history differs", **feat)
    out.nontrivial = bool(stateful) and differs
    return out


def gen():
    fac = st.one_of(st.sampled_from(STATEFUL), st.sampled_from(STATEFUL), st.sampled_from(STATELESS))
    plain_pair = st.tuples(st.sampled_from(["x", "y", "z", "w"]), st.sampled_from(["A", "B", "C(G)", "C(B, contr.sum)"])).map(list)
    term = st.one_of(st.lists(fac, min_size=1, max_size=2, unique=True), st.lists(fac, min_size=1, max_size=2, unique=True), plain_pair, st.sampled_from(["x", "y", "z"]).map(lambda c: [c]))
    hist = st.fixed_dictionaries(
        {
            "rows": st.one_of(st.just([]), st.lists(st.integers(0, 60), min_size=1, max_size=6), st.lists(st.integers(0, 60), min_size=10, max_size=18)),
            "fresh": st.integers(0, 4),
            "seed": st.integers(0, 10**6),
            "index": st.sampled_from([None, "labels", "labels", "odd"]),
            "recat": st.booleans(),
        }
    )
    templates = st.sampled_from(
        [
            [["x"], ["z"], ["x", "A"], ["z", "A"]],  # clustering by numerical factors reorders these
            [["y"], ["x"], ["B"], ["y", "B"], ["x", "B"]],
            [["x", "B"], ["B"], ["x"]],
            [["scale(x)"], ["z"], ["scale(x)", "C(G)"], ["z", "C(G)"]],
            [["bs(x, df=4, lower_bound=2, upper_bound=8, extrapolation='clip')"], ["hashed(H, levels=16)"]],
            [["bs(x, df=3, lower_bound=3, upper_bound=7, extrapolation='zero')"], ["z"], ["hashed(H, levels=8)", "x"]],
            [["cr(x, df=3, lower_bound=2, upper_bound=8, extrapolation='clip')"], ["y"]],
            [["cc(x, df=3, lower_bound=2.5, upper_bound=7.5, extrapolation='clip')"], ["A"]],
            # one quoted column inside several stateful transforms (each records its state under the sanitised alias)
            [["center(`a b`)"], ["scale(`a b`)"]],
            [["center(`a b`)"], ["center(`a-b`)"]],
            [["scale(`a-b`)"], ["scale(`a b`)"], ["x"]],
            [["scale(`a b`)"], ["center(`a b`)"], ["np.log(`a b` + 10)"], ["standardize(`a b`)", "A"]],
        ]
    )
    return st.fixed_dictionaries(
        {
            "seed": st.integers(0, 10**6),
            "n": st.integers(8, 40),
            "terms": st.one_of(st.lists(term, min_size=1, max_size=4), st.lists(term, min_size=1, max_size=4), templates),
            "intercept": st.booleans(),
            "history": st.lists(hist, min_size=1, max_size=4),
            "output": st.sampled_from(["pandas", "pandas", "numpy", "sparse"]),
            "efr": st.sampled_from([True, True, False]),
            "cluster": st.sampled_from([False, False, True]),
        }
    )


BUDGET_S = {"quick": 75, "thorough": 1500}


def campaigns(tier, shard=0, nshards=1):
    return [Campaign("replay", gen(), check_case, 400 if tier == "quick" else 4000)]
