"""
C17 - required variables, name resolution order and '.' expansion are exact.
"""

from __future__ import annotations

import numpy as np
from hypothesis import strategies as st

from ..core import Campaign, Outcome
from ..gen import formula as G
from ..ref import algebra as R

RULE = (
    "required: formulas (one- and two-sided) whose factors are plain names, quoted names, nested calls of built-ins "
    "(log, np.log, scale, C, poly, I, bs), python expressions, module attribute access and context-supplied callables, "
    "over frames with extra unused columns; oracle: Formula.required_variables == the data columns the generator put in "
    "the formula; materialising on data[R] succeeds; for each v in R materialising on data without v raises "
    "FactorEvaluationError; the same for model_spec.required_variables after materialisation; attribute / method access "
    "on a data column is a separately labelled class. layers: a name living in 1-3 of {data, context, built-ins} with "
    "distinguishable values, used as a lookup, inside a python expression or as a callable: the matrix holds the value "
    "of the first layer in the order data > context > built-ins and variables_by_source files it under that layer. dot: "
    "formulas with '.' (y ~ ., log(y) + b ~ ., `c d` ~ ., . - a, .:a, y ~ . | ., ...) over frames of 1-6 numeric columns "
    "in shuffled order: right-hand columns == Intercept + exactly the columns not used on the left, in data order, "
    "combined with the other operators as the reference algebra says. Non-trivial: a call or python expression / the "
    "name in >=2 layers / the LHS uses a variable inside a call or quoted; distinct by case."
)
ASSUMPTIONS = [
    "context scalars are not used in the 'required' campaign: before materialisation a scalar parameter is indistinguishable from a column",
    "comprehensions and lambdas are not generated (the variable extractor is documented to see names only)",
]

# (formula spelling, data columns it needs)
FACTORS = [
    ("a", ["a"]), ("b", ["b"]), ("e", ["e"]), ("`c d`", ["c d"]), ("log(b)", ["b"]), ("np.log(b)", ["b"]), ("scale(a)", ["a"]),
    ("C(A)", ["A"]), ("A", ["A"]), ("poly(a, 2)", ["a"]), ("I(a * b)", ["a", "b"]), ("bs(e, df=3)", ["e"]), ("{a + 1}", ["a"]),
    ("I(`c d` + a)", ["c d", "a"]), ("np.exp(e / 10)", ["e"]), ("f1(a)", ["a"]), ("f2(b, e)", ["b", "e"]), ("log(f1(a) + b)", ["a", "b"]),
    ("C(A, contr.sum)", ["A"]), ("center(`c d`)", ["c d"]), ("{`1z` * 2}", ["1z"]), ("`1z`", ["1z"]), ("np.sqrt(b):a", ["a", "b"]),
    # a column whose name equals the sanitised alias of the quoted column `c d`
    ("c_d", ["c_d"]), ("{c_d * 2}", ["c_d"]), ("I(`c d` - c_d)", ["c d", "c_d"]),
    # a categorical column with a single observed level (emits no column next to an intercept, but is still evaluated)
    ("K", ["K"]), ("C(K)", ["K"]),
    # variables that only appear as the value of a keyword argument
    ("np.clip(a, a_min=b, a_max=e)", ["a", "b", "e"]), ("f2(b, y=e)", ["b", "e"]),
    ("f3(a)(e)", ["a", "e"]), ("{np.stack([b, e], axis=1)[:, 0]}", ["b", "e"]), ("I(f3(b)(a) - e)", ["a", "b", "e"]),
]
METHOD_FACTORS = [("{a.clip(0)}", ["a"]), ("{a.sum() * b}", ["a", "b"]), ("I(b.values)", ["b"]), ("{(a + b).abs()}", ["a", "b"])]


def frame():
    import pandas as pd

    n = 6
    return pd.DataFrame(
        {
            "u1": np.arange(n) * 1.0, "a": [1.0, 2.5, 3.0, 4.5, 5.0, 7.0], "b": [2.0, 1.0, 4.0, 3.0, 6.0, 5.0], "A": pd.Series(list("xyzxyz"), dtype=object),
            "c d": [0.5, 1.5, 2.5, 3.5, 4.5, 6.5], "c_d": [3.0, 1.0, 4.0, 1.0, 5.0, 9.0], "e": [9.0, 7.0, 8.0, 3.0, 1.0, 2.0], "1z": [1.0, 0.0, 2.0, 5.0, 3.0, 4.0], "y": [1.0, 3.0, 2.0, 5.0, 4.0, 6.0], "u2": list("pqrpqr"), "K": pd.Series(["k"] * 6, dtype=object),
        }
    )


class _G:
    a = 2.0


CONTEXT = {"f1": lambda x: x * 2, "f2": lambda x, y: x + y, "f3": lambda x: (lambda y: x + 2 * y), "g": _G()}


def check_required(case) -> Outcome:
    from formulaic import Formula
    from formulaic.errors import FactorEvaluationError

    out = Outcome()
    pool = FACTORS + (METHOD_FACTORS if case["methods"] else [])
    facs = [pool[i % len(pool)] for i in case["factors"]]
    exp = set()
    for s_, cols in facs:
        exp |= set(cols)
    rhs = " + ".join(dict.fromkeys(s for s, _ in facs))
    if case["interaction"] and len(facs) >= 2:
        rhs += f" + {facs[0][0]}:{facs[1][0]}"
    s = rhs
    if case.get("multipart") and len(facs) >= 2 and not case["lhs"]:
        # the same factors spread over two parts of a multi-part formula
        s = f"{facs[0][0]} | " + " + ".join(dict.fromkeys(f_[0] for f_ in facs[1:]))
        out.label("multipart")
    if case["lhs"]:
        s = f"{['y', 'log(y)', 'y + a'][case['lhs'] % 3]} ~ {rhs}"
        exp |= {"y"} | ({"a"} if case["lhs"] % 3 == 2 else set())
    method = any(f in METHOD_FACTORS for f in facs)
    # (a method on an expression target is handled since repair F38; what remains open is the method on a column)
    feat_target = "column" if any(f in METHOD_FACTORS and f[0] != "{(a + b).abs()}" for f in facs) else "expression"
    out.label("method-access" if method else "plain")
    out.nontrivial = any("(" in f or "{" in f for f, _ in facs)
    feat = dict(method=method, target=feat_target if method else "none")
    df = frame()
    f = Formula(s)
    try:
        R0 = set(map(str, f.required_variables))
    except ValueError as e:
        out.fail("required-variables-raises", f"{s!r}: {type(e).__name__}: {str(e)[:150]}", **feat)
        return out
    if R0 != exp:
        out.fail("required-before-materialisation", f"{s!r}: required_variables {sorted(R0)} vs columns used {sorted(exp)}", **feat)
    # sufficient
    try:
        mm = f.get_model_matrix(df[sorted(exp)], context=CONTEXT)
    except Exception as e:
        out.fail("sufficient", f"{s!r}: materialising on exactly {sorted(exp)} raised {type(e).__name__}: {str(e)[:150]}", **feat)
        return out
    # necessary
    for v in sorted(exp):
        try:
            f.get_model_matrix(df[[c for c in sorted(exp) if c != v]], context=CONTEXT)
            out.fail("necessary", f"{s!r}: materialising without column {v!r} succeeded", **feat)
        except FactorEvaluationError:
            pass
        except Exception as e:
            out.fail("necessary-error-type", f"{s!r}: without column {v!r}: {type(e).__name__}: {str(e)[:150]}", **feat)
    # after materialisation
    specs = mm.model_spec
    R1 = set(map(str, specs.required_variables))
    if R1 != exp:
        out.fail("required-after-materialisation", f"{s!r}: model_spec.required_variables {sorted(R1)} vs {sorted(exp)}", **feat)
    # pickled / deep-copied results report the same variables, with their sources
    import copy
    import pickle

    for how, clone in (("pickle", lambda o: pickle.loads(pickle.dumps(o))), ("deepcopy", copy.deepcopy)):
        for what, obj in (("spec", specs), ("matrix", mm)):
            try:
                c_ = clone(obj)
            except Exception as e:
                out.fail("copy-raises", f"{s!r}: {how} of the {what}: {type(e).__name__}: {str(e)[:120]}", **feat)
                continue
            sp_ = c_ if what == "spec" else c_.model_spec
            R2 = set(map(str, sp_.required_variables))
            def by_source(sp):
                leaves_ = list(sp._flatten()) if hasattr(sp, "_flatten") else [sp]
                return [{str(k_): sorted(map(str, v_)) for k_, v_ in l_.variables_by_source.items()} for l_ in leaves_]

            by1, by2 = by_source(specs), by_source(sp_)
            if R2 != R1 or by1 != by2:
                out.fail("variables-after-copy", f"{s!r}: {how} of the {what}: required {sorted(R2)} vs {sorted(R1)}; by source {by2} vs {by1}", **feat, how=how)
    # on the full frame the result is the same as on the restricted one
    mm2 = f.get_model_matrix(df, context=CONTEXT)
    if hasattr(mm, "_flatten") and not case["lhs"]:
        pairs_ = tuple(zip(mm._flatten(), mm2._flatten()))
    else:
        pairs_ = ((mm.lhs, mm2.lhs), (mm.rhs, mm2.rhs)) if case["lhs"] else ((mm, mm2),)
    for a_, b_ in pairs_:
        if list(a_.columns) != list(b_.columns) or not np.allclose(np.asarray(a_, dtype=float), np.asarray(b_, dtype=float), equal_nan=True):
            out.fail("extra-columns-change-result", f"{s!r}", **feat)
    return out


def gen_required():
    return st.fixed_dictionaries(
        {
            "factors": st.lists(st.integers(0, 40), min_size=1, max_size=4),
            "interaction": st.booleans(),
            "lhs": st.sampled_from([0, 0, 1, 2, 3]),
            "methods": st.sampled_from([False, False, False, True]),
            "multipart": st.sampled_from([False, False, True]),
        }
    )


# ---------------------------------------------------------------- layers


def check_layers(case) -> Outcome:
    import pandas as pd
    from formulaic import Formula
    from formulaic.errors import FactorEvaluationError

    out = Outcome()
    usage, layers = case["usage"], case["layers"]  # layers subset of {"data","context","builtin"}
    n = 4
    data = {"k": [1.0, 2.0, 3.0, 4.0]}
    ctx = {}
    out.label("usage:" + usage, "layers:" + "+".join(sorted(layers)))
    out.nontrivial = len(layers) >= 2
    feat = dict(usage=usage, layers="+".join(sorted(layers)))
    if usage in ("lookup", "python-value"):
        # a value name: built-ins hold no plain values except modules, so the built-in layer is the module `np`... use
        # the name 'q' for data/context only
        name = "q"
        if usage == "lookup" and case.get("vname"):
            # a column that happens to be called like a built-in transform, referenced as a bare name
            name = ["q", "scale", "center", "log"][case["vname"] % 4]
        if "data" in layers:
            data[name] = [10.0, 20.0, 30.0, 40.0]
        if "context" in layers:
            ctx[name] = np.array([100.0, 200.0, 300.0, 400.0])
        if not (layers & {"data", "context"}):
            return out
        s = f"{name} - 1" if usage == "lookup" else f"{{{name} + 0}} - 1"
        exp = np.array(data[name]) if "data" in layers else ctx[name]
        src = "data" if "data" in layers else "context"
        vname = name
    else:
        # a callable name that also exists as a built-in transform
        # ("center" is a *stateful* built-in: a plain function of that name in the context must be called as a plain one)
        name = "center" if case.get("vname", 0) % 2 else "log"
        if "context" in layers:
            ctx[name] = lambda x: x * 100
        if "data" in layers:
            data[name] = [5.0, 6.0, 7.0, 8.0]
        s = f"{name}(k) - 1"
        k = np.array(data["k"])
        if "data" in layers:
            exp, src = None, "data"  # a column is not callable: must fail loudly
        elif "context" in layers:
            exp, src = k * 100, "context"
        else:
            exp, src = (np.log(k) if name == "log" else k - k.mean()), "transforms"
        vname = name
    df = pd.DataFrame(data)
    if usage != "callable":
        # before materialisation a bare or python-evaluated value name is always reported
        pre = set(map(str, Formula(s).required_variables))
        if vname not in pre and not (usage == "python-value" and vname != "q"):
            out.fail("required-before-materialisation", f"{s!r}: Formula.required_variables {sorted(pre)} lacks {vname!r}", **feat)
    entry = case.get("entry", "formula")
    out.label("entry:" + entry)
    try:
        if entry == "spec-overrides":
            # the context handed to a spec together with option overrides
            from formulaic import ModelSpec

            mm = ModelSpec(formula=Formula(s)).get_model_matrix(df, context=ctx, output="numpy")
        elif entry == "spec":
            from formulaic import ModelSpec

            mm = ModelSpec(formula=Formula(s), output="pandas").get_model_matrix(df, context=ctx)
        elif case.get("ctx_kind") == "layered":
            # the context is itself an (unnamed) layered mapping
            from formulaic.utils.layered_mapping import LayeredMapping

            out.label("context:layered-mapping")
            mm = Formula(s).get_model_matrix(df, context=LayeredMapping(ctx, {"unused_name": 1}))
        elif case.get("ctx_kind") == "captured":
            # the caller's frame is captured (model_matrix's default): locals take precedence over module globals
            import formulaic

            out.label("context:captured-frame")
            g = {nm: ((lambda x: x * -1.0) if callable(v_) else np.full(4, -1.0)) for nm, v_ in ctx.items()}  # module globals of the same names
            g["__builtins__"] = __builtins__
            code = "def _call(s, df, fn, VALS):\n" + "".join(f"    {nm} = VALS[{nm!r}]\n" for nm in ctx) + "    return fn(s, df)\n"
            exec(code, g)  # noqa: S102 - fixed template
            mm = g["_call"](s, df, formulaic.model_matrix, ctx)
        else:
            mm = Formula(s).get_model_matrix(df, context=ctx)
    except FactorEvaluationError as e:
        if exp is None:
            out.rejected = True
            return out
        out.fail("resolution-raises", f"{s!r} with layers {sorted(layers)}: {str(e)[:150]}", **feat)
        return out
    if exp is None:
        out.fail("data-does-not-shadow", f"{s!r}: a data column named like the callable did not take precedence (result {np.asarray(mm).ravel().tolist()})", **feat)
        return out
    got = np.asarray(mm, dtype=float).ravel()
    if got.shape != exp.shape or not np.allclose(got, exp):
        out.fail("resolution-order", f"{s!r} with layers {sorted(layers)}: got {got.tolist()}, expected the {src} layer's {exp.tolist()}", **feat)
    by = mm.model_spec.variables_by_source
    where = sorted(str(k_) for k_, vs in by.items() if vname in set(map(str, vs)))
    if where != [src]:
        out.fail("variables-by-source", f"{s!r} with layers {sorted(layers)}: {vname!r} filed under {where}, value came from {src!r}", **feat)
    req = set(map(str, mm.model_spec.required_variables))
    exp_req = {"k"} if usage == "callable" else ({vname} if src == "data" else set())
    if req != exp_req:
        out.fail("required-vs-source", f"{s!r} with layers {sorted(layers)}: required_variables {sorted(req)} vs {sorted(exp_req)}", **feat)
    return out


def gen_layers():
    return st.fixed_dictionaries(
        {
            "usage": st.sampled_from(["lookup", "python-value", "callable"]),
            "entry": st.sampled_from(["formula", "formula", "spec", "spec-overrides"]),
            "vname": st.integers(0, 3),
            "ctx_kind": st.sampled_from(["dict", "dict", "layered", "captured"]),
            "layers": st.sets(st.sampled_from(["data", "context", "builtin"]), min_size=1, max_size=3).map(lambda s: s | {"builtin"} if False else s),
        }
    )


# ---------------------------------------------------------------- dot

DOT_RHS = [
    ["."],
    ["b", "-", ["."], ["n", "a"]],
    ["b", "+", ["."], ["b", ":", ["n", "a"], ["n", "b"]]],
    ["b", ":", ["."], ["n", "a"]],
    ["b", "+", ["n", "a"], ["."]],
    ["b", "*", ["."], ["n", "b"]],
    ["^", ["()", ["."]], 2, "**"],
    ["b", "-", ["b", "-", ["."], ["n", "a"]], ["n", "b"]],
    ["b", "+", ["."], ["0"]],
    ["b", "/", ["n", "a"], ["."]],
    # a right-hand side that starts with a sign (the tokenizer fuses it with a preceding ~ or |)
    ["b", "+", ["u", "-", ["1"]], ["."]],
    ["b", "+", ["u", "+", ["1"]], ["."]],
    ["b", "+", ["u", "-", ["n", "a"]], ["."]],
    ["b", "-", ["u", "+", ["."]], ["n", "b"]],
    # a column mentioned (inside a call / an interaction) before the dot
    ["b", "+", ["c", "log(y)", ["y"]], ["."]],
    ["b", "+", ["b", ":", ["n", "a"], ["n", "b"]], ["."]],
]
LHS = [None, [["n", "y"]], [["c", "log(y)", ["y"]]], [["q", "c d"]], [["b", "+", ["n", "y"], ["n", "b"]]], [["c", "log(y)", ["y"]], ["n", "a"]]]


def check_dot(case) -> Outcome:
    import pandas as pd
    from ..libio import model_matrix

    out = Outcome()
    cols = [c for c in case["cols"]]
    lhs = LHS[case["lhs"] % len(LHS)]
    rhs_parts = [DOT_RHS[i % len(DOT_RHS)] for i in case["rhs"]]
    tree = {"lhs": lhs, "rhs": rhs_parts, "tilde": lhs is not None}
    need = set(R.variables_of(["()", ["b", "+", ["n", "a"], ["n", "a"]]]))  # placeholder to keep linters quiet
    used = []
    for p in (lhs or []) + rhs_parts:
        used += R.variables_of(p)
    if not set(used) <= set(cols):
        out.label("excluded:formula-needs-absent-column")
        return out
    s = G.join(G.tokens_structured(tree))
    df = pd.DataFrame({c: np.linspace(1, 2, 5) * (i + 1) + (np.arange(5) % 2) * (i + 0.5) for i, c in enumerate(cols)})
    out.label("lhs:%s" % (case["lhs"] % len(LHS)), "parts:%d" % len(rhs_parts))
    out.nontrivial = lhs is not None and any(p[0] in ("c", "q") for p in lhs)
    as_list = bool(case.get("as_list")) and lhs is None and len(rhs_parts) == 1
    try:
        # (a string inside a list spec is read by the nested parser: no implicit intercept)
        exp = R.ev_structured(tree, not as_list, cols, ordered=True)
    except R.Unspecified:
        out.label("unspecified")
        return out
    if as_list:
        out.label("list-spec")
        mm = model_matrix([s], df)
    else:
        mm = model_matrix(s, df)
    rhs = mm.rhs if lhs is not None else (mm.root if hasattr(mm, "root") and len(rhs_parts) > 1 else mm)

    def names_of(T):
        return ["Intercept" if t == ["1"] else ":".join(t) for t in T[1]]

    e_rhs = exp["rhs"] if isinstance(exp, dict) and "rhs" in exp else (exp["root"] if isinstance(exp, dict) else exp)
    parts_exp = e_rhs[1] if e_rhs[0] == "P" else [e_rhs]
    parts_got = list(rhs) if isinstance(rhs, tuple) else [rhs]
    if len(parts_exp) != len(parts_got):
        out.fail("dot-parts", f"{s!r}: {len(parts_got)} parts vs {len(parts_exp)}")
        return out
    for pe, pg in zip(parts_exp, parts_got):
        got = list(pg.model_spec.column_names)
        if got != names_of(pe):
            out.fail("dot-expansion", f"{s!r} on columns {cols}: right-hand columns {got}, expected {names_of(pe)}")
    return out


def gen_dot():
    @st.composite
    def strat(draw):
        lhs = draw(st.integers(0, len(LHS) - 1))
        rhs = draw(st.lists(st.integers(0, len(DOT_RHS) - 1), min_size=1, max_size=2))
        need = []
        for p in (LHS[lhs] or []) + [DOT_RHS[i] for i in rhs]:
            need += R.variables_of(p)
        extra = draw(st.lists(st.sampled_from(["a", "b", "y", "c d", "d", "e"]), max_size=4, unique=True))
        cols = draw(st.permutations(sorted(set(need) | set(extra)) or ["a"]))
        return {"cols": list(cols), "lhs": lhs, "rhs": rhs, "as_list": draw(st.booleans())}

    return strat()


# ---------------------------------------------------------------- a formula mutated between reads

MNAMES = ["a", "b", "e", "c d", "y", "1z"]


def check_mutated(case) -> Outcome:
    """required_variables follows the formula through any sequence of in-place mutations (read between steps)."""
    from formulaic import Formula
    from formulaic.parser.types import Factor, Term

    out = Outcome()
    mk = lambda i: Term([Factor(MNAMES[i % len(MNAMES)], eval_method="lookup")])
    names = [MNAMES[i % len(MNAMES)] for i in case["init"]]
    f = Formula([mk(i) for i in case["init"]], _ordering="none")
    model = list(names)
    muts = 0
    for step in [("init",)] + [tuple(s_) for s_ in case["ops"]]:
        op = step[0]
        if op == "del" and model:
            i = step[1] % len(model)
            del f[i]
            del model[i]
        elif op == "pop" and model:
            f.pop()
            model.pop()
        elif op == "remove" and model:
            nm = model[step[1] % len(model)]
            f.remove(mk(MNAMES.index(nm)))
            model.remove(nm)
        elif op == "append":
            f.append(mk(step[1]))
            model.append(MNAMES[step[1] % len(MNAMES)])
        elif op == "set" and model:
            i = step[1] % len(model)
            f[i] = mk(step[2])
            model[i] = MNAMES[step[2] % len(MNAMES)]
        elif op == "clear":
            f.clear()
            model.clear()
        elif op != "init":
            continue
        muts += op != "init"
        got = set(map(str, f.required_variables))
        if got != set(model):
            out.fail("required-variables-after-mutation", f"after {step} (history {case['ops']}): required_variables {sorted(got)} but the formula is {list(map(str, f))}", op=op)
            break
    out.nontrivial = muts >= 2
    out.label("mutated-formula")
    return out


def gen_mutated():
    ti = st.integers(0, len(MNAMES) - 1)
    op = st.one_of(
        st.tuples(st.just("del"), st.integers(0, 9)), st.tuples(st.just("pop")), st.tuples(st.just("remove"), st.integers(0, 9)),
        st.tuples(st.just("append"), ti), st.tuples(st.just("set"), st.integers(0, 9), ti), st.tuples(st.just("clear")),
    )
    return st.fixed_dictionaries({"init": st.lists(ti, min_size=1, max_size=4, unique=True), "ops": st.lists(op, min_size=1, max_size=6)})


N = {"quick": (350, 200, 600, 500), "thorough": (4000, 400, 8000, 5000)}
BUDGET_S = {"quick": 60, "thorough": 1200}


def campaigns(tier, shard=0, nshards=1):
    n = N[tier]
    return [
        Campaign("required", gen_required(), check_required, n[0]),
        Campaign("layers", gen_layers(), check_layers, n[1]),
        Campaign("dot", gen_dot(), check_dot, n[2]),
        Campaign("mutated-formula", gen_mutated(), check_mutated, n[3]),
    ]
