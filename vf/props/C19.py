"""
C19 - Structured, LayeredMapping and formula containers obey their container laws.

Histories are JSON lists of operations; each is interpreted against the real
object and against a plain-Python model, with the invariants checked after
every step (model-based stateful testing; the whole history shrinks as one
value and replays from its JSON form).
"""

from __future__ import annotations

import copy

from hypothesis import strategies as st

from ..core import Campaign, Outcome

RULE = (
    "Three model-based campaigns. structured: nested specs (keys from a small identifier pool plus root, tuples, "
    "nested Structured, leaves ints / int lists) with a nested dict/tuple model: _map (with and without context "
    "argument) preserves shape and visits exactly list(_flatten()) in order; _flatten is the model's leaves; "
    "_simplify idempotent and leaf preserving; _update = dict merge; _merge = recursive key-wise merge (lists "
    "concatenated, tuples chained, ValueError iff misaligned); _to_dict(recurse=False) round-trips; len/in/iter/item/"
    "attribute access agree with the model. layered: op histories (set, del, with_layers prepend/append x inplace/copy, "
    "nested named layers) vs a recursive model: dict(lm) = top-first merge, len, single iteration of keys, lookups, "
    "failed del leaves everything unchanged, supplied layers equal their pristine copies. formula: op histories "
    "(insert, append, extend, setitem int/slice, delitem int/slice, pop, remove, clear, +=) under each ordering vs a "
    "list model followed by the ordering rule. Non-trivial: depth>=2 with a tuple / >=2 layers sharing a key and >=1 "
    "write / >=3 mutations with mixed degrees; distinct by case."
)
ASSUMPTIONS = [
    "SimpleFormula slice assignment may raise FormulaInvalidError provided the formula is unchanged (counted)",
    "reverse()/sort() mixin methods and LayeredMapping names after with_layers(inplace=True) are not asserted",
    "tuples nested directly inside tuples are a labelled class of their own",
]

KEYS = ["a", "b", "lhs", "rhs", "k"]

# ---------------------------------------------------------------- Structured
# spec: ["leaf", value] | ["tuple", [spec...]] | ["struct", {"root": spec?|None, key: spec...}]


def leaf():
    return st.one_of(st.integers(0, 9), st.lists(st.integers(0, 9), max_size=2)).map(lambda v: ["leaf", v])


def node(allow_nested_tuple=False):
    def ext(ch):
        elem = ch if allow_nested_tuple else ch.filter(lambda s: s[0] != "tuple")
        return st.one_of(
            st.lists(elem, min_size=0, max_size=3).map(lambda xs: ["tuple", xs]),
            st.tuples(st.one_of(st.none(), ch), st.dictionaries(st.sampled_from(KEYS), ch, max_size=3)).map(
                lambda t: ["struct", dict(([("root", t[0])] if t[0] is not None else []) + list(t[1].items()))]
            ),
        )

    return st.recursive(leaf(), ext, max_leaves=8)


def top():
    n = node()
    return st.tuples(st.one_of(st.none(), n), st.dictionaries(st.sampled_from(KEYS), n, max_size=3)).map(
        lambda t: ["struct", dict(([("root", t[0])] if t[0] is not None else []) + list(t[1].items()))]
    )


def build(spec):
    from formulaic.utils.structured import Structured

    k = spec[0]
    if k == "leaf":
        return copy.deepcopy(spec[1])
    if k == "tuple":
        return tuple(build(s) for s in spec[1])
    kw = {key: build(v) for key, v in spec[1].items() if key != "root"}
    if "root" in spec[1]:
        return Structured(build(spec[1]["root"]), **kw)
    return Structured(**kw)


def model(spec):
    """Model: leaf value | tuple | dict (in the library's key order: keyword keys first, root last)."""
    k = spec[0]
    if k == "leaf":
        return copy.deepcopy(spec[1])
    if k == "tuple":
        return tuple(model(s) for s in spec[1])
    d = {key: model(v) for key, v in spec[1].items() if key != "root"}
    if "root" in spec[1]:
        d["root"] = model(spec[1]["root"])
    return ("S", d)


def is_s(m):
    return isinstance(m, tuple) and len(m) == 2 and m[0] == "S" and isinstance(m[1], dict)


def m_leaves(m, nested_as_leaf=False, in_tuple=False):
    if is_s(m):
        out = []
        for v in m[1].values():
            out += m_leaves(v)
        return out
    if isinstance(m, tuple):
        out = []
        for v in m:
            out += m_leaves(v, in_tuple=True)
        return out
    return [m]


def to_model(obj):
    from formulaic.utils.structured import Structured

    if isinstance(obj, Structured):
        return ("S", {k: to_model(v) for k, v in obj._structure.items()})
    if isinstance(obj, tuple):
        return tuple(to_model(v) for v in obj)
    return obj


def m_map(m, f):
    if is_s(m):
        return ("S", {k: m_map(v, f) for k, v in m[1].items()})
    if isinstance(m, tuple):
        return tuple(m_map(v, f) for v in m)
    return f(m)


def depth(spec):
    if spec[0] == "leaf":
        return 0
    if spec[0] == "tuple":
        return 1 + max([depth(s) for s in spec[1]] + [0])
    return 1 + max([depth(s) for s in spec[1].values()] + [0])


def has_tuple(spec):
    if spec[0] == "tuple":
        return True
    if spec[0] == "struct":
        return any(has_tuple(s) for s in spec[1].values())
    return False


def nested_tuple(spec, inside=False):
    if spec[0] == "tuple":
        return inside or any(nested_tuple(s, True) for s in spec[1])
    if spec[0] == "struct":
        return any(nested_tuple(s, False) for s in spec[1].values())
    return False


def m_merge(objs):
    """Reference for Structured._merge on models; returns model or raises ValueError."""
    alltup = all(isinstance(o, tuple) and not is_s(o) for o in objs)
    anytup = any(isinstance(o, tuple) and not is_s(o) for o in objs)
    if anytup and not alltup:
        raise ValueError("misaligned")
    if alltup:
        return ("TUP", tuple(x for o in objs for x in o))
    if all(not is_s(o) for o in objs):
        # leaves: lists are concatenated (the default merger); ints are not mergeable
        if all(isinstance(o, list) for o in objs):
            return [x for o in objs for x in o]
        raise NotImplementedError
    vals = {}
    for o in objs:
        if is_s(o):
            for k, v in o[1].items():
                vals.setdefault(k, []).append(v)
        else:
            vals.setdefault("root", []).append(o)
    out = {}
    for k, vs in vals.items():
        if len(vs) > 1:
            r = m_merge(vs)
            out[k] = r[1] if isinstance(r, tuple) and r and r[0] == "TUP" else r
        else:
            out[k] = vs[0]
    return ("S", out)


def check_structured(case) -> Outcome:
    from formulaic.utils.structured import Structured

    out = Outcome()
    spec = case["spec"]
    out.nontrivial = depth(spec) >= 2 and has_tuple(spec)
    nt = nested_tuple(spec)
    if nt:
        out.label("tuple-in-tuple")
    s = build(spec)
    m = model(spec)
    if to_model(s) != m:
        out.fail("construction", f"{spec} -> {to_model(s)} vs {m}")
        return out
    leaves = m_leaves(m)
    flat = list(s._flatten())
    if flat != leaves:
        out.fail("flatten", f"{spec}: _flatten {flat} vs model leaves {leaves}", nested_tuple=nt)
    # _map: shape + visit order
    visited = []
    mapped = s._map(lambda x: (visited.append(x), ("m", x))[1])
    if to_model(mapped) != m_map(m, lambda x: ("m", x)):
        out.fail("map-shape", f"{spec}: {to_model(mapped)}", nested_tuple=nt)
    if visited != flat:
        out.fail("map-visits-flatten-order", f"{spec}: visited {visited} vs flatten {flat}", nested_tuple=nt)
    visited2, ctxs = [], []
    s._map(lambda x, ctx: (visited2.append(x), ctxs.append(ctx), x)[2])
    if visited2 != visited:
        out.fail("map-with-context-visits", f"{spec}: {visited2} vs {visited}", nested_tuple=nt)
    for x, ctx in zip(visited2, ctxs):
        try:
            got = s[tuple(ctx)]
        except Exception as e:
            got = e
        if not (got is x or got == x):
            out.fail("map-context-path", f"{spec}: path {ctx} -> {got!r} but leaf {x!r}", nested_tuple=nt)
            break
    # _map(recurse=False): "only map one level deep" - nested Structured nodes (under a key or inside a tuple)
    # are handed to the function whole; tuples are still traversed
    def shallow(v):
        if is_s(v):
            return ("m", v)
        if isinstance(v, tuple):
            return tuple(shallow(x) for x in v)
        return ("m", v)

    seen_nodes = []
    mapped0 = s._map(lambda x: (seen_nodes.append(x), ("m", x))[1], recurse=False)
    if to_model(mapped0) != ("S", {k: shallow(v) for k, v in m[1].items()}):
        out.fail("map-one-level", f"{spec}: {to_model(mapped0)}", nested_tuple=nt)
    # simplify
    s1 = s._simplify()
    s2 = s1._simplify() if isinstance(s1, Structured) else s1
    if to_model(s1) != to_model(s2):
        out.fail("simplify-idempotent", f"{spec}: {to_model(s1)} then {to_model(s2)}")
    fl1 = list(s1._flatten()) if isinstance(s1, Structured) else m_leaves(to_model(s1))
    if fl1 != leaves and sorted(map(repr, fl1)) != sorted(map(repr, leaves)):
        out.fail("simplify-preserves-leaves", f"{spec}: {fl1} vs {leaves}")
    if to_model(s) != m:
        out.fail("simplify-mutates-original", f"{spec}")
    s3 = build(spec)
    r = s3._simplify(unwrap=False, inplace=True)
    if r is not s3 or (list(s3._flatten()) != leaves and sorted(map(repr, s3._flatten())) != sorted(map(repr, leaves))):
        out.fail("simplify-inplace", f"{spec}: {to_model(s3)}")
    if to_model(s3._simplify(unwrap=False)) != to_model(s3):
        out.fail("simplify-idempotent", f"{spec}: in-place then again differs")
    # to_dict round trip
    d = s._to_dict(recurse=False)
    if to_model(Structured(**d)) != m and set(d) == set(m[1]):
        out.fail("to-dict-roundtrip", f"{spec}: {d}")
    d2 = s._to_dict()
    def dictify(mm):
        if is_s(mm):
            return {k: dictify(v) for k, v in mm[1].items()}
        if isinstance(mm, tuple):
            return tuple(dictify(v) for v in mm)
        return mm
    if d2 != dictify(m):
        out.fail("to-dict-recursive", f"{spec}: {d2} vs {dictify(m)}")
    # container protocol
    md = m[1]
    for k in KEYS + ["root", "zz"]:
        if (k in s) != (k in md):
            out.fail("contains", f"{spec}: {k}")
        if k in md and k != "root":
            if to_model(getattr(s, k)) != md[k]:
                out.fail("getattr", f"{spec}: {k}")
            if set(md) != {"root"} and to_model(s[k]) != md[k]:
                out.fail("getitem", f"{spec}: {k}")
    if "root" in md and to_model(s.root) != md["root"]:
        out.fail("root", f"{spec}")
    if "root" in md and set(md) == {"root"} and not is_s(md["root"]) and isinstance(md["root"], (tuple, list)):
        exp_iter = list(md["root"])
    else:
        exp_iter = ([md["root"]] if "root" in md else []) + [v for k, v in md.items() if k != "root"]
    try:
        got_iter = [to_model(v) for v in s]
    except TypeError:
        got_iter = None
    if got_iter is not None and got_iter != exp_iter and not ("root" in md and set(md) == {"root"} and is_s(md["root"])):
        out.fail("iter", f"{spec}: {got_iter} vs {exp_iter}")
    if got_iter is not None and len(s) != len(got_iter):
        out.fail("len", f"{spec}: {len(s)}")
    # update
    upd = {k: build(v) for k, v in case["update"].items()}
    u = s._update(**upd)
    exp_u = dict(md)
    for k, v in case["update"].items():
        exp_u[k] = model(v)
    if to_model(u)[1] != exp_u:  # key order is not part of the contract
        out.fail("update", f"{spec} update {case['update']}: {to_model(u)} vs {exp_u}")
    if to_model(s) != m:
        out.fail("update-mutates-original", f"{spec}")
    # ... and the merged container is a new one: a later in-place edit of either never shows in the other
    out.label("update:empty" if not upd else "update:keys")
    for which in ("result", "original"):
        s2 = build(spec)
        u2 = s2._update(**{k: build(v) for k, v in case["update"].items()})
        before = to_model(u2 if which == "original" else s2)
        if which == "result":
            u2["zz"] = "edit"
            u2.root = "edit"
        else:
            s2["zz"] = "edit"
            s2.root = "edit"
        if to_model(u2 if which == "original" else s2) != before:
            out.fail("update-result-aliases-original", f"{spec} update {case['update']}: an in-place edit of the {which} shows in the other container", edited=which, empty=not upd)
    # merge
    others = [build(o) for o in case["merge"]]
    oms = [model(o) for o in case["merge"]]
    if others:
        try:
            exp_m = m_merge([m] + oms)
            exp_err = None
        except ValueError:
            exp_m, exp_err = None, ValueError
        except NotImplementedError:
            exp_m, exp_err = None, NotImplementedError
        try:
            got_m = Structured._merge(s, *others)
            got_err = None
        except ValueError:
            got_m, got_err = None, ValueError
        except NotImplementedError:
            got_m, got_err = None, NotImplementedError
        out.label("merge:" + ("ok" if exp_err is None else exp_err.__name__))
        if exp_err is not got_err and NotImplementedError not in (exp_err, got_err):
            out.fail("merge-error", f"{spec} + {case['merge']}: expected {exp_err}, got {got_err} / {to_model(got_m) if got_m is not None else None}")
        elif exp_err is None and got_err is None and to_model(got_m) != exp_m:
            out.fail("merge", f"{spec} + {case['merge']}: {to_model(got_m)} vs {exp_m}")
    return out


def gen_structured():
    return st.fixed_dictionaries(
        {
            "spec": st.one_of(top(), top(), st.tuples(st.one_of(st.none(), node(True)), st.dictionaries(st.sampled_from(KEYS), node(True), max_size=2)).map(
                lambda t: ["struct", dict(([("root", t[0])] if t[0] is not None else []) + list(t[1].items()))])),
            "update": st.dictionaries(st.sampled_from(KEYS + ["root"]), node(), max_size=2),
            "merge": st.lists(top(), max_size=2),
        }
    )


# ---------------------------------------------------------------- LayeredMapping

LKEYS = ["x", "y", "z", "w"]


class M:
    def __init__(self, layers, name=None):
        self.private, self.layers, self.name = {}, list(layers), name

    def lookup(self, k):
        if k in self.private:
            return (True, self.private[k])
        for l in self.layers:
            if isinstance(l, M):
                f, v = l.lookup(k)
                if f:
                    return (True, v)
            elif k in l:
                return (True, l[k])
        return (False, None)

    def keys(self):
        out = list(self.private)
        for l in self.layers:
            for k in l.keys() if isinstance(l, M) else l:
                if k not in out:
                    out.append(k)
        return out

    def merged(self):
        return {k: self.lookup(k)[1] for k in self.keys()}


def check_layered(case) -> Outcome:
    from formulaic.utils.layered_mapping import LayeredMapping

    out = Outcome()
    import collections

    # some supplied layers are mappings with a __missing__ hook (defaultdict): looking a key up in the layered
    # mapping must neither return their default nor insert into them
    dd = case.get("dd") or []
    supplied = [collections.defaultdict(int, l) if (dd and dd[i % len(dd)]) else dict(l) for i, l in enumerate(case["layers"])]
    pristine = [dict(l) for l in supplied]
    named = case.get("names") or []
    real_layers, model_layers = [], []
    for i, l in enumerate(supplied):
        nm = named[i % len(named)] if named else None
        if nm:
            real_layers.append(LayeredMapping(l, name=nm))
            model_layers.append(M([l], name=nm))
        else:
            real_layers.append(l)
            model_layers.append(l)
    lm = LayeredMapping(*real_layers)
    mm = M(model_layers)
    extra_supplied, extra_pristine = [], []
    ancestors = []  # mappings a copy was derived from: they stay live layers of the derived mapping
    writes = 0
    shared = len(supplied) >= 2 and any(set(a) & set(b) for i, a in enumerate(supplied) for b in supplied[i + 1 :])

    def inv(step):
        d = dict(lm)
        if d != mm.merged():
            out.fail("merge-view", f"after {step}: dict(lm)={d} vs model {mm.merged()}", op=step[0])
            return False
        if len(lm) != len(mm.keys()):
            out.fail("len", f"after {step}: len {len(lm)} vs {len(mm.keys())}", op=step[0])
        ks = list(lm)
        if len(ks) != len(set(ks)) or set(ks) != set(mm.keys()):
            out.fail("iteration", f"after {step}: {ks}", op=step[0])
        for k in LKEYS + ["q"]:
            f, v = mm.lookup(k)
            if (k in lm) != f:
                out.fail("contains", f"after {step}: {k}", op=step[0])
            if f and lm[k] != v:
                out.fail("lookup", f"after {step}: lm[{k}]={lm[k]} vs {v}", op=step[0])
            if f and lm.get_with_layer_name(k)[0] != v:
                out.fail("lookup-with-layer-name", f"after {step}: {k}", op=step[0])
            if not f:
                try:
                    lm[k]
                    out.fail("missing-key", f"after {step}: lm[{k}] did not raise", op=step[0])
                except KeyError:
                    pass
        for p_real, p_model in ancestors:
            if dict(p_real) != p_model.merged():
                out.fail("ancestor-view", f"after {step}: ancestor {dict(p_real)} vs model {p_model.merged()}", op=step[0])
                return False
        if supplied != pristine or extra_supplied != extra_pristine:
            out.fail("supplied-layer-mutated", f"after {step}: {supplied} vs {pristine}; {extra_supplied} vs {extra_pristine}", op=step[0])
            return False
        return True

    if not inv(("init",)):
        return out
    for step in case["ops"]:
        op = step[0]
        if op == "set":
            lm[step[1]] = step[2]
            mm.private[step[1]] = step[2]
            writes += 1
        elif op == "setlayer":
            # write back the very object a supplied layer holds for this key (e.g. to undo a shadowing write)
            k = step[1]
            src = next((l for l in supplied + extra_supplied if k in l), None)
            if src is None:
                continue
            lm[k] = src[k]
            mm.private[k] = src[k]
            writes += 1
        elif op == "del":
            k = step[1]
            if k in mm.private:
                del lm[k]
                del mm.private[k]
                writes += 1
            else:
                try:
                    del lm[k]
                    out.fail("del-non-private", f"del lm[{k!r}] did not raise although the key is not in the private layer", op=op)
                except KeyError:
                    pass
        elif op == "with":
            _, layer, prepend, inplace = step
            newl = dict(layer)
            extra_supplied.append(newl)
            extra_pristine.append(copy.deepcopy(newl))
            res = lm.with_layers(newl, prepend=prepend, inplace=inplace)
            if inplace:
                if res is not lm:
                    out.fail("with-layers-inplace-identity", f"{step}", op=op)
                mm.layers = [newl, *mm.layers] if prepend else [*mm.layers, newl]
            else:
                if res is lm:
                    out.fail("with-layers-copy-identity", f"{step}", op=op)
                old_real, old_model = lm, mm
                snapshot = dict(old_real)
                lm = res
                mm = M([newl, old_model] if prepend else [old_model, newl])
                ancestors.append((old_real, old_model))
                if dict(old_real) != snapshot:
                    out.fail("with-layers-copy-mutates-original", f"{step}", op=op)
        elif op == "pset":
            # write through the mapping this one was derived from: it is a live layer
            if not ancestors:
                continue
            p_real, p_model = ancestors[step[3] % len(ancestors)]
            p_real[step[1]] = step[2]
            p_model.private[step[1]] = step[2]
        elif op == "pwith":
            # the parent gains a layer in place after the copy was derived
            if not ancestors:
                continue
            p_real, p_model = ancestors[step[3] % len(ancestors)]
            newl = dict(step[1])
            extra_supplied.append(newl)
            extra_pristine.append(copy.deepcopy(newl))
            p_real.with_layers(newl, prepend=step[2], inplace=True)
            p_model.layers = [newl, *p_model.layers] if step[2] else [*p_model.layers, newl]
        elif op == "withnone":
            res = lm.with_layers(None, prepend=step[1], inplace=step[2])
            if res is not lm:
                out.fail("with-layers-none", f"{step}", op=op)
        if not inv(step):
            return out
    out.nontrivial = shared and writes >= 1
    out.label("layers:%d" % len(supplied))
    return out


def gen_layered():
    layer = st.dictionaries(st.sampled_from(LKEYS), st.integers(0, 99), max_size=3)
    op = st.one_of(
        st.tuples(st.just("set"), st.sampled_from(LKEYS), st.integers(100, 199)),
        st.tuples(st.just("set"), st.sampled_from(LKEYS), st.integers(100, 199)),
        st.tuples(st.just("del"), st.sampled_from(LKEYS)),
        st.tuples(st.just("setlayer"), st.sampled_from(LKEYS)),
        st.tuples(st.just("with"), layer, st.booleans(), st.booleans()),
        st.tuples(st.just("withnone"), st.booleans(), st.booleans()),
        st.tuples(st.just("pset"), st.sampled_from(LKEYS), st.integers(200, 299), st.integers(0, 3)),
        st.tuples(st.just("pwith"), layer, st.booleans(), st.integers(0, 3)),
    )
    return st.fixed_dictionaries(
        {
            "layers": st.lists(layer, min_size=0, max_size=4),
            "dd": st.lists(st.booleans(), max_size=3),
            "names": st.one_of(st.none(), st.lists(st.sampled_from(["data", "ctx", "", "inner"]), min_size=1, max_size=3)),
            "ops": st.lists(op, min_size=0, max_size=10),
        }
    )


# ---------------------------------------------------------------- SimpleFormula

TERMS = [["a"], ["b"], ["c"], ["a", "b"], ["b", "a"], ["c", "a"], ["a", "b", "c"], ["1"], ["z"], ["b", "c"], ["d"], ["c", "b", "a"]]


def mk_term(t):
    from formulaic.parser.types import Factor, Term

    return Term([Factor(f, eval_method="literal" if f == "1" else "lookup") for f in t])


def m_degree(t):
    return sum(1 for f in t if f != "1")


def m_reorder(lst, ordering):
    if ordering == "degree":
        return sorted(lst, key=m_degree)
    if ordering == "sort":
        return sorted([sorted(t) for t in lst], key=lambda t: (m_degree(t), t))
    return list(lst)


def m_eq(a, b):
    return sorted(a) == sorted(b)


def check_formula(case) -> Outcome:
    from formulaic.errors import FormulaInvalidError
    from formulaic.formula import SimpleFormula

    out = Outcome()
    ordering = case["ordering"]
    init = [TERMS[i % len(TERMS)] for i in case["init"]]
    f = SimpleFormula([mk_term(t) for t in init], _ordering=ordering)
    m = m_reorder([list(t) for t in init], ordering)
    muts = 0

    def snap():
        return [[x.expr for x in t.factors] for t in f]

    def inv(step):
        got = snap()
        if got != m:
            out.fail("sequence-vs-model", f"ordering={ordering} after {step}: {got} vs model {m} (history {case['ops']})", op=step[0], ordering=ordering)
            return False
        if ordering in ("degree", "sort") and [m_degree(t) for t in got] != sorted(m_degree(t) for t in got):
            out.fail("degree-sorted", f"after {step}: {got}", op=step[0], ordering=ordering)
        if len(f) != len(m):
            out.fail("len", f"after {step}", op=step[0], ordering=ordering)
        return True

    if not inv(("init",)):
        return out
    for step in case["ops"]:
        op = step[0]
        T = lambda i: TERMS[i % len(TERMS)]
        try:
            if op == "insert":
                f.insert(step[1], mk_term(T(step[2])))
                m.insert(step[1], list(T(step[2])))
            elif op == "append":
                f.append(mk_term(T(step[1])))
                m.append(list(T(step[1])))
            elif op == "extend":
                # (every third time from a one-shot iterator rather than a list)
                items = [mk_term(T(i)) for i in step[1]]
                f.extend(iter(items) if len(step[1]) % 3 == 2 else items)
                m.extend([list(T(i)) for i in step[1]])
            elif op == "iadd":
                items = [mk_term(T(i)) for i in step[1]]
                f += (x_ for x_ in items) if len(step[1]) % 3 == 1 else items
                m += [list(T(i)) for i in step[1]]
            elif op == "setint":
                if not m:
                    continue
                i = step[1] % len(m)
                f[i] = mk_term(T(step[2]))
                m[i] = list(T(step[2]))
            elif op == "setslice":
                a, b = sorted([step[1] % (len(m) + 1), step[2] % (len(m) + 1)])
                before = snap()
                try:
                    f[a:b] = [mk_term(T(i)) for i in step[3]]
                    m[a:b] = [list(T(i)) for i in step[3]]
                except FormulaInvalidError:
                    out.label("slice-assignment-rejected")
                    if snap() != before:
                        out.fail("rejected-slice-assignment-mutated", f"{step}", op=op, ordering=ordering)
            elif op == "delint":
                if not m:
                    continue
                i = step[1] % len(m)
                del f[i]
                del m[i]
            elif op == "delslice":
                a, b = sorted([step[1] % (len(m) + 1), step[2] % (len(m) + 1)])
                del f[a:b]
                del m[a:b]
            elif op == "pop":
                if not m:
                    continue
                t = f.pop()
                mt = m.pop()
                if [x.expr for x in t.factors] != mt:
                    out.fail("pop-value", f"{step}: {t} vs {mt}", op=op, ordering=ordering)
            elif op == "remove":
                t = T(step[1])
                idx = next((i for i, x in enumerate(m) if m_eq(x, t)), None)
                if idx is None:
                    try:
                        f.remove(mk_term(t))
                        out.fail("remove-missing", f"{step}", op=op, ordering=ordering)
                    except ValueError:
                        pass
                else:
                    f.remove(mk_term(t))
                    del m[idx]
            elif op == "clear":
                f.clear()
                m.clear()
            elif op == "getslice":
                a, b = sorted([step[1] % (len(m) + 1), step[2] % (len(m) + 1)])
                sub = f[a:b]
                exp = m_reorder(m[a:b], ordering)
                got = [[x.expr for x in t.factors] for t in sub]
                if got != exp:
                    out.fail("getslice", f"{step}: {got} vs {exp}", op=op, ordering=ordering)
                continue
        except Exception:
            raise
        muts += 1
        m[:] = m_reorder(m, ordering)
        if not inv(step):
            return out
    degs = {m_degree(TERMS[i % len(TERMS)]) for i in case["init"]}
    out.nontrivial = muts >= 3
    out.label("ordering:" + ordering)
    return out


def gen_formula():
    ti = st.integers(0, len(TERMS) - 1)
    op = st.one_of(
        st.tuples(st.just("insert"), st.integers(-3, 8), ti),
        st.tuples(st.just("append"), ti),
        st.tuples(st.just("extend"), st.lists(ti, max_size=3)),
        st.tuples(st.just("iadd"), st.lists(ti, max_size=3)),
        st.tuples(st.just("setint"), st.integers(0, 20), ti),
        st.tuples(st.just("setint"), st.integers(0, 20), ti),
        st.tuples(st.just("setslice"), st.integers(0, 20), st.integers(0, 20), st.lists(ti, max_size=2)),
        st.tuples(st.just("delint"), st.integers(0, 20)),
        st.tuples(st.just("delslice"), st.integers(0, 20), st.integers(0, 20)),
        st.tuples(st.just("pop")),
        st.tuples(st.just("remove"), ti),
        st.tuples(st.just("clear")),
        st.tuples(st.just("getslice"), st.integers(0, 20), st.integers(0, 20)),
    )
    return st.fixed_dictionaries(
        {
            "ordering": st.sampled_from(["degree", "degree", "sort", "none"]),
            "init": st.lists(ti, max_size=5, unique=True),
            "ops": st.lists(op, min_size=0, max_size=12),
        }
    )


N = {"quick": (1500, 1500, 2000), "thorough": (20000, 20000, 25000)}
BUDGET_S = {"quick": 60, "thorough": 1200}


def campaigns(tier, shard=0, nshards=1):
    n = N[tier]
    return [
        Campaign("structured", gen_structured(), check_structured, n[0]),
        Campaign("layered", gen_layered(), check_layered, n[1]),
        Campaign("formula", gen_formula(), check_formula, n[2]),
    ]
