"""
C18 - materialization is pure and deterministic across calls, histories and hash seeds.
"""

from __future__ import annotations

import copy
import hashlib
import json
import os
import pickle
import subprocess
import sys

import numpy as np
from hypothesis import strategies as st

from ..core import Campaign, Outcome, VERIF_DIR
from ..gen import frames as F

RULE = (
    "history: generated operation histories (<=12 steps) over 2-3 frames (with nulls), 2-3 formula objects and a growing "
    "pool of specs: build(formula object, frame, options), build from string, new un-materialised ModelSpec, take the "
    "spec of an earlier result, reuse(spec, frame), pickle round trip, update copy, subset, repeat an earlier call. "
    "Invariants after every step: every frame equals its pristine deep copy (values, dtypes, index, column order), "
    "every formula object prints and compares as when created; every call's result (column names, values bit for bit, "
    "kept index) equals the same call made with fresh objects (fresh Formula(string) / fresh ModelSpec / a fresh "
    "unpickling of the bytes saved when the spec was first obtained, on a fresh copy of the frame); repeated calls are "
    "identical. hash seeds: a battery of cases generated from VERIF_SEED is materialised in child interpreters started "
    "with PYTHONHASHSEED in {0,1,2,3,17,4242,65535,random} (thorough: 32 values); the canonical digests (column names in "
    "order, values bytes, kept index, sorted dropped rows, printed formula) must all agree. Non-trivial = a history with "
    ">=1 reuse of an object obtained >=2 steps earlier; battery cases counted separately; distinct by history / case hash."
)
ASSUMPTIONS = [
    "'all PYTHONHASHSEED values' is sampled (8 quick / 32 thorough)",
    "bit-identical comparison of values (NaN == NaN)",
]

STATEFUL_EXTRA = [
    {"k": "st", "fn": "scale", "col": "z"}, {"k": "st", "fn": "center", "col": "z"}, {"k": "bsK", "col": "z"},
    # a quoted non-identifier column inside stateful transforms (its sanitised alias keys the transform state)
    {"k": "st", "fn": "scale", "col": F.ODD_NUM}, {"k": "st", "fn": "center", "col": F.ODD_NUM},
    # a float array the caller supplies through the context
    {"k": "ctx", "src": "lag(ZV)"}, {"k": "ctx", "src": "np.exp(ZV / 10)"}, {"k": "ctx", "src": "lag(ZV, -1)"},
    # a contrasts instance the caller owns (used at full and at reduced rank, on frames with different levels)
    {"k": "ctx", "src": "C(A, TC)"}, {"k": "ctx", "src": "C(B, TC)"},
]
KNOTS = [0.75, 2.5]
CONTEXT_K = list(KNOTS)
CONTEXT_Z = {}


def zv(n):
    return np.arange(n, dtype=float) * 0.5 + 1.0


def _tc():
    from formulaic.transforms.contrasts import ContrastsRegistry as contr

    return contr.treatment()


CONTEXT_TC = []


def ctx(n=None):
    """The caller's context: a mutable list (bs(z, knots=K)), a float array of the frame's length (lag(ZV)) and a
    contrasts instance (C(A, TC))."""
    if not CONTEXT_TC:
        CONTEXT_TC.append(_tc())
    c = {"K": CONTEXT_K, "TC": CONTEXT_TC[0]}
    if n is not None:
        c["ZV"] = CONTEXT_Z.setdefault(n, zv(n))
    return c


def fresh_ctx(n=None):
    c = {"K": list(KNOTS), "TC": _tc()}
    if n is not None:
        c["ZV"] = zv(n)
    return c


def digest(mm):
    names = list(mm.model_spec.column_names)
    a = mm.toarray() if hasattr(mm, "toarray") else (mm.to_numpy() if hasattr(mm, "to_numpy") else np.asarray(mm))
    a = np.ascontiguousarray(np.asarray(a, dtype=float))
    idx = [repr(i) for i in mm.index] if hasattr(mm, "index") and not hasattr(mm, "toarray") else None
    return {"names": names, "shape": list(a.shape), "values": hashlib.sha256(a.tobytes()).hexdigest(), "index": idx}


def frames_equal(a, b):
    import pandas as pd

    try:
        pd.testing.assert_frame_equal(a, b, check_exact=True)
        return list(a.columns) == list(b.columns)
    except AssertionError:
        return False


def check_history(case) -> Outcome:
    from formulaic import Formula, ModelSpec
    from ..libio import model_matrix

    out = Outcome()
    frs = copy.deepcopy(case["frames"])
    for i, flip in enumerate(case.get("flips", [])):
        if i < len(frs) and flip:
            col = flip
            n_ = frs[i]["n"]
            if col in F.CAT_COLS:
                frs[i]["cols"][col] = {"dtype": "float64", "values": [float(j % 3) for j in range(n_)]}
            else:
                frs[i]["cols"][col] = {"dtype": "object", "values": [["u", "v", "w"][j % 3] for j in range(n_)]}
    frames = [F.build(fr) for fr in frs]
    for i_, df_ in enumerate(frames):
        import pandas as pd

        if i_ % 2 == 0:
            df_.index.name = "x"  # the index is named like a column that ends up in the model matrix
        df_["pa_col"] = pd.array(np.arange(len(df_), dtype=float), dtype="double[pyarrow]")  # never referenced by a formula
    pristine = [df.copy(deep=True) for df in frames]
    fstrs = [F.formula_string(fc) for fc in case["formulas"]]
    formulas = [Formula(s) for s in fstrs]
    fprints = [repr(f) for f in formulas]
    specs = []  # entries: {"spec": obj, "fresh": callable -> equivalent fresh spec, "born": step}
    calls = []  # entries: {"run": callable, "fresh": callable, "digest": ...}
    reuse_old = False

    def opts_of(o):
        return dict(output=["pandas", "numpy", "sparse"][o % 3], ensure_full_rank=bool((o // 3) % 2), na_action=["drop", "drop", "ignore"][(o // 6) % 3])

    CONTEXT_K[:] = list(KNOTS)
    CONTEXT_Z.clear()
    CONTEXT_TC.clear()
    nrows = [len(df) for df in frames]
    # process-wide state a materialisation must leave alone
    np_err0 = dict(np.geterr())
    rng0 = np.random.get_state()[1].tobytes()

    def invariants(step):
        if dict(np.geterr()) != np_err0:
            now = dict(np.geterr())
            np.seterr(**np_err0)
            out.fail("global-state-changed", f"after {step}: numpy error settings are now {now} (were {np_err0})", op=step[0], what="numpy.seterr")
            return False
        if np.random.get_state()[1].tobytes() != rng0:
            out.fail("global-state-changed", f"after {step}: numpy's global random state was consumed", op=step[0], what="numpy.random")
            return False
        if CONTEXT_K != KNOTS:
            out.fail("context-object-mutated", f"after {step}: the caller's list K is now {CONTEXT_K}", op=step[0])
            CONTEXT_K[:] = list(KNOTS)
            return False
        if CONTEXT_TC and vars(CONTEXT_TC[0]) != vars(_tc()):
            out.fail("context-object-mutated", f"after {step}: the caller's contrasts instance now has {vars(CONTEXT_TC[0])}", op=step[0])
            CONTEXT_TC.clear()
            return False
        for n_, arr in CONTEXT_Z.items():
            if not np.array_equal(arr, zv(n_)):
                out.fail("context-object-mutated", f"after {step}: the caller's array ZV (n={n_}) is now {arr.tolist()}", op=step[0])
                CONTEXT_Z.clear()
                return False
        for i, (df, pr) in enumerate(zip(frames, pristine)):
            if not frames_equal(df, pr):
                out.fail("input-data-mutated", f"after {step}: frame {i} changed", op=step[0])
                return False
        for i, f in enumerate(formulas):
            if repr(f) != fprints[i] or not (f == Formula(fstrs[i])):
                out.fail("formula-mutated", f"after {step}: formula {fstrs[i]!r} now prints {f!r}", op=step[0])
                return False
        return True

    def do_call(step, run, fresh):
        try:
            got = digest(run())
        except Exception as e:
            try:
                digest(fresh())
            except Exception:
                return  # the same call fails with fresh objects too: not a purity matter
            out.fail("call-fails-only-with-reused-objects", f"{step}: {type(e).__name__}: {str(e)[:200]} (history {case['steps']})", op=step[0])
            return
        exp = digest(fresh())
        if got != exp:
            what = "names" if got["names"] != exp["names"] else ("shape" if got["shape"] != exp["shape"] else ("index" if got["index"] != exp["index"] else "values"))
            out.fail("result-differs-from-fresh-objects", f"{step} in history {case['steps']} (formulas {fstrs}): {got} vs fresh {exp}", op=step[0], what=what)
        calls.append({"run": run, "fresh": fresh, "digest": got})

    for k, step in enumerate(case["steps"]):
        step = tuple(step)
        op = step[0]
        if op == "build":
            fi, di, o = step[1] % len(formulas), step[2] % len(frames), opts_of(step[3])
            do_call(step, lambda fi=fi, di=di, o=o: formulas[fi].get_model_matrix(frames[di], context=ctx(nrows[di]), **o), lambda fi=fi, di=di, o=o: Formula(fstrs[fi]).get_model_matrix(pristine[di].copy(deep=True), context=fresh_ctx(nrows[di]), **o))
        elif op == "sweep":
            # the same formula object against every frame in turn (frames may disagree about a column's kind)
            fi, o = step[1] % len(formulas), opts_of(step[2])
            for di in range(len(frames)):
                do_call(step, lambda fi=fi, di=di, o=o: formulas[fi].get_model_matrix(frames[di], context=ctx(nrows[di]), **o), lambda fi=fi, di=di, o=o: Formula(fstrs[fi]).get_model_matrix(pristine[di].copy(deep=True), context=fresh_ctx(nrows[di]), **o))
        elif op == "build-str":
            fi, di, o = step[1] % len(formulas), step[2] % len(frames), opts_of(step[3])
            do_call(step, lambda fi=fi, di=di, o=o: model_matrix(fstrs[fi], frames[di], context=ctx(nrows[di]), **o), lambda fi=fi, di=di, o=o: model_matrix(fstrs[fi], pristine[di].copy(deep=True), context=fresh_ctx(nrows[di]), **o))
        elif op == "spec-new":
            fi, o = step[1] % len(formulas), opts_of(step[2])
            if len(step) > 3 and step[3]:
                o["materializer"] = "pandas"  # a hand-built spec already bound to a materializer
            specs.append({"spec": ModelSpec(formula=formulas[fi], **o), "fresh": (lambda fi=fi, o=o: ModelSpec(formula=Formula(fstrs[fi]), **o)), "born": k})
        elif op == "take-spec":
            if not calls:
                continue
            c = calls[step[1] % len(calls)]
            try:
                res = c["run"]()
            except Exception:
                continue
            blob = pickle.dumps(res.model_spec)
            specs.append({"spec": res.model_spec, "fresh": (lambda blob=blob: pickle.loads(blob)), "born": k})
        elif op == "reuse":
            if not specs:
                continue
            sp = specs[step[1] % len(specs)]
            di = step[2] % len(frames)
            if k - sp["born"] >= 2:
                reuse_old = True
            do_call(step, lambda sp=sp, di=di: sp["spec"].get_model_matrix(frames[di], context=ctx(nrows[di])), lambda sp=sp, di=di: sp["fresh"]().get_model_matrix(pristine[di].copy(deep=True), context=fresh_ctx(nrows[di])))
        elif op == "pickle":
            if not specs:
                continue
            sp = specs[step[1] % len(specs)]
            specs.append({"spec": pickle.loads(pickle.dumps(sp["spec"])), "fresh": sp["fresh"], "born": k})
        elif op == "update":
            if not specs:
                continue
            sp = specs[step[1] % len(specs)]
            out_ = ["pandas", "numpy", "sparse"][step[2] % 3]
            specs.append({"spec": sp["spec"].update(output=out_), "fresh": (lambda sp=sp, out_=out_: sp["fresh"]().update(output=out_)), "born": k})
        elif op == "subset":
            if not specs:
                continue
            sp = specs[step[1] % len(specs)]
            if sp["spec"].structure is None or not len(sp["spec"].formula):
                continue
            terms_ = list(sp["spec"].formula)
            t0 = [terms_[(step[2] if len(step) > 2 else 0) % len(terms_)]]
            try:
                specs.append({"spec": sp["spec"].subset(t0), "fresh": (lambda sp=sp, t0=t0: sp["fresh"]().subset(t0)), "born": k})
            except Exception:
                continue
        elif op == "mat-reuse":
            # one materializer instance serves a formula first and then an existing spec
            if not specs:
                continue
            from formulaic.materializers import PandasMaterializer

            fi, sp, di = step[1] % len(formulas), specs[step[2] % len(specs)], step[3] % len(frames)

            def run(fi=fi, sp=sp, di=di):
                m = PandasMaterializer(frames[di], context=ctx(nrows[di]))
                try:
                    m.get_model_matrix(formulas[fi])
                except Exception:
                    pass
                return m.get_model_matrix(sp["spec"])

            do_call(step, run, lambda sp=sp, di=di: PandasMaterializer(pristine[di].copy(deep=True), context=fresh_ctx(nrows[di])).get_model_matrix(sp["fresh"]()))
        elif op == "repeat":
            if not calls:
                continue
            c = calls[step[1] % len(calls)]
            try:
                again = digest(c["run"]())
            except Exception as e:
                out.fail("repeat-raises", f"{step}: {type(e).__name__}: {str(e)[:150]}", op=op)
                continue
            if again != c["digest"]:
                out.fail("repeat-not-identical", f"{step} in history {case['steps']}: {again} vs first time {c['digest']}", op=op)
        if not invariants(step):
            return out
    out.nontrivial = reuse_old
    out.label("steps:%d" % len(case["steps"]))
    return out


def gen_formula():
    @st.composite
    def strat(draw):
        fc = draw(F.formulas(max_terms=3, max_factors=2))
        if draw(st.booleans()):
            extra = [[f] for f in draw(st.lists(st.sampled_from(STATEFUL_EXTRA), min_size=1, max_size=2))]
            fc = {"intercept": fc["intercept"], "terms": F.normalize_terms(fc["terms"] + extra)}
        return fc

    return strat()


def gen_history():
    step = st.one_of(
        st.tuples(st.just("build"), st.integers(0, 5), st.integers(0, 5), st.integers(0, 17)),
        st.tuples(st.just("build-str"), st.integers(0, 5), st.integers(0, 5), st.integers(0, 17)),
        st.tuples(st.just("sweep"), st.integers(0, 5), st.integers(0, 17)),
        st.tuples(st.just("spec-new"), st.integers(0, 5), st.integers(0, 17), st.booleans()),
        st.tuples(st.just("mat-reuse"), st.integers(0, 5), st.integers(0, 9), st.integers(0, 5)),
        st.tuples(st.just("take-spec"), st.integers(0, 9)),
        st.tuples(st.just("reuse"), st.integers(0, 9), st.integers(0, 5)),
        st.tuples(st.just("reuse"), st.integers(0, 9), st.integers(0, 5)),
        st.tuples(st.just("pickle"), st.integers(0, 9)),
        st.tuples(st.just("update"), st.integers(0, 9), st.integers(0, 2)),
        st.tuples(st.just("subset"), st.integers(0, 9), st.integers(0, 5)),
        st.tuples(st.just("repeat"), st.integers(0, 9)),
    )
    return st.fixed_dictionaries(
        {
            "frames": st.lists(F.frame(min_rows=3, max_rows=8, nulls=True, index_kinds=("default", "shuffled", "strings"), null_free=("z", F.ODD_NUM), odd_names=True), min_size=2, max_size=3),
            "formulas": st.lists(gen_formula(), min_size=2, max_size=3),
            "steps": st.lists(step, min_size=3, max_size=12),
            # the same column may be text in one frame and numeric in another
            "flips": st.lists(st.sampled_from([None, "A", "B", "A", "x", "y"]), min_size=0, max_size=3),
        }
    )


# ---------------------------------------------------------------- hash seeds


DUP_STATEFUL = [
    {"intercept": True, "terms": [[{"k": "ctx", "src": "poly(z, 3)"}], [{"k": "ctx", "src": "np.tanh(poly(z, 3))"}]]},
    {"intercept": False, "terms": [[{"k": "ctx", "src": "np.exp(scale(z))"}], [{"k": "ctx", "src": "scale(z)"}], [{"k": "ctx", "src": "I(scale(z) * 2)"}]]},
    {"intercept": True, "terms": [[{"k": "ctx", "src": "bs(z, df=4)"}], [{"k": "num", "col": "x"}, {"k": "ctx", "src": "np.sqrt(bs(z, df=4) + 1)"}]]},
]
CAT3 = [
    {"intercept": True, "terms": [[{"k": "cat", "col": "A"}, {"k": "cat", "col": "B"}, {"k": "C", "col": "G", "contrast": None}]]},
    {"intercept": True, "terms": [[{"k": "cat", "col": "A"}], [{"k": "cat", "col": "A"}, {"k": "cat", "col": "B"}, {"k": "C", "col": "G", "contrast": None}]]},
    {"intercept": True, "terms": [[{"k": "cat", "col": "B"}, {"k": "cat", "col": "A"}], [{"k": "C", "col": "G", "contrast": {"kind": "sum"}}, {"k": "cat", "col": "B"}, {"k": "cat", "col": "A"}, {"k": "num", "col": "x"}]]},
]


def battery_case():
    return st.fixed_dictionaries(
        {
            "frame": F.frame(min_rows=3, max_rows=10, nulls=True, index_kinds=("default", "strings"), null_free=("z", F.ODD_NUM), odd_names=True),
            "formula": st.one_of(gen_formula(), gen_formula(), F.formulas(max_terms=3, max_factors=4, py=False, polyraw=False), st.sampled_from(CAT3)),
            "opts": st.integers(0, 17),
            "twosided": st.booleans(),
            "cluster": st.booleans(),
        }
    )


def run_battery_case(c):
    """Executed in the child interpreter: canonical digest of one case."""
    from ..libio import model_matrix

    df = F.build(c["frame"])
    s = F.formula_string(c["formula"])
    if c.get("handbuilt"):
        # a hand-assembled structured spec whose parts disagree about the missing-data policy: whatever the outcome
        # (the library refuses it), it is the same outcome in every interpreter
        from formulaic import Formula, ModelSpec
        from formulaic.model_spec import ModelSpecs

        na_l, na_r = c["handbuilt"]
        specs = ModelSpecs(lhs=ModelSpec(formula=Formula("0 + z"), na_action=na_l), rhs=ModelSpec(formula=Formula(s), na_action=na_r))
        dropped = set()
        mm = specs.get_model_matrix(df, drop_rows=dropped, context=fresh_ctx(len(df)))
        d = {"parts": [digest(mm.lhs), digest(mm.rhs)], "dropped": sorted(int(v) for v in dropped)}
        return hashlib.sha256(json.dumps(d, sort_keys=True).encode()).hexdigest()
    o = dict(output=["pandas", "numpy", "sparse"][c["opts"] % 3], ensure_full_rank=bool((c["opts"] // 3) % 2), na_action=["drop", "drop", "ignore"][(c["opts"] // 6) % 3])
    if c["cluster"]:
        o["cluster_by"] = "numerical_factors"
    dropped = set()
    if c["twosided"]:
        mm = model_matrix(f"z ~ {s}", df, drop_rows=dropped, context=fresh_ctx(len(df)), **o)
        parts = [mm.lhs, mm.rhs]
    else:
        mm = model_matrix(s, df, drop_rows=dropped, context=fresh_ctx(len(df)), **o)
        parts = [mm]
    d = {"parts": [digest(p) for p in parts], "dropped": sorted(int(v) for v in dropped), "formula": [repr(p.model_spec.formula) for p in parts],
         "variables": [sorted(map(str, p.model_spec.variables)) for p in parts], "required": [sorted(map(str, p.model_spec.required_variables)) for p in parts]}
    return hashlib.sha256(json.dumps(d, sort_keys=True).encode()).hexdigest()


def child_main():
    cases = json.load(sys.stdin)
    outp = []
    for c in cases:
        try:
            outp.append(run_battery_case(c))
        except Exception as e:
            outp.append("EXC:" + type(e).__name__ + ":" + hashlib.sha256(str(e).encode()).hexdigest()[:8])
    json.dump(outp, sys.stdout)


def extra_phase(tier, seed, stats):
    from hypothesis import given, seed as hseed
    from ..core import hyp_settings, case_hash
    from ..core import Violation

    n = 100 if tier == "quick" else 600
    cases = []

    @hseed(seed)
    @hyp_settings(n)
    @given(battery_case())
    def collect(c):
        cases.append(c)

    collect()
    # a fixed stratum: interactions of >=3 categorical factors without their margins, on a frame where every
    # factor has 3 levels (the shape in which set-ordering ties can decide the rank-reduction layout)
    fixed_frame = {
        "n": 9, "index": None,
        "cols": {
            "A": {"dtype": "object", "values": list("abcabcabc")}, "B": {"dtype": "object", "values": list("xxxyyyzzz")},
            "G": {"dtype": "int64", "values": [1, 2, 3, 2, 3, 1, 3, 1, 2]}, "x": {"dtype": "float64", "values": [float(i) for i in range(9)]},
            "y": {"dtype": "float64", "values": [0.5, 1.0, 2.0, 3.0, -1.0, 0.0, 7.25, 1.0, 2.0]}, "z": {"dtype": "float64", "values": [1.0, 2.0, 3.0, 0.5, 0.5, 2.0, 1.0, 3.0, 2.0]},
        },
    }
    for fc in CAT3:
        for o in (0, 3, 5):
            for cl in (False, True):
                cases.append({"frame": fixed_frame, "formula": fc, "opts": o, "twosided": False, "cluster": cl})
    # the same stateful call inside several factors: which factor fits it first must not show in the bytes
    for fc in DUP_STATEFUL:
        for o in (0, 1, 3):
            cases.append({"frame": fixed_frame, "formula": fc, "opts": o, "twosided": False, "cluster": False})
    # hand-assembled structured specs (parts agreeing / disagreeing on na_action) on a frame with nulls
    nul_frame = json.loads(json.dumps(fixed_frame))
    nul_frame["cols"]["x"]["values"][2] = None
    nul_frame["cols"]["A"]["values"][5] = None
    for pair in (["drop", "drop"], ["drop", "ignore"], ["ignore", "drop"], ["raise", "ignore"], ["ignore", "ignore"]):
        cases.append({"frame": nul_frame, "formula": {"intercept": True, "terms": [[{"k": "num", "col": "x"}], [{"k": "cat", "col": "A"}]]}, "opts": 0, "twosided": False, "cluster": False, "handbuilt": pair})
    seeds = ["0", "1", "2", "3", "17", "4242", "65535", "random"]
    if tier == "thorough":
        seeds += [str(x) for x in (5, 7, 11, 13, 19, 23, 29, 31, 37, 41, 43, 47, 53, 59, 61, 67, 71, 73, 79, 83, 89, 97, 101, 1000003)]
    payload = json.dumps(cases)
    env_base = dict(os.environ)
    procs = []
    for hs in seeds:
        env = dict(env_base, PYTHONHASHSEED=hs)
        procs.append((hs, subprocess.Popen([sys.executable, "-c", "from vf.props.C18 import child_main; child_main()"], stdin=subprocess.PIPE, stdout=subprocess.PIPE, stderr=subprocess.PIPE, env=env, cwd=VERIF_DIR, text=True)))
    results = {}
    for hs, p in procs:
        so, se = p.communicate(payload)
        if p.returncode != 0:
            from ..core import HarnessError

            raise HarnessError(f"hash-seed child {hs} failed: {se[-500:]}")
        results[hs] = json.loads(so)
    ref = results[seeds[0]]
    for i, c in enumerate(cases):
        o = Outcome()
        o.nontrivial = True
        o.label("battery")
        diff = [hs for hs in seeds if results[hs][i] != ref[i]]
        if diff:
            o.fail("depends-on-hash-seed", f"case {json.dumps(c)[:600]}: digests differ for PYTHONHASHSEED in {diff} (vs {seeds[0]})")
        stats.record("extra:hash-seeds", c, o)
    # one large frame (250 000 rows): two fresh builds are identical and leave numpy's global random state alone
    # (data-derived knots / statistics must not come from a random subsample)
    import pandas as pd
    from ..libio import model_matrix as _mm
    from ..core import Outcome as _Outcome

    big = pd.DataFrame({"x": np.linspace(0.0, 1.0, 250_000) ** 2 * 10.0, "g": np.tile(["a", "b", "c", "d", "e"], 50_000)})
    o_big = _Outcome()
    o_big.nontrivial = True
    rng_before = np.random.get_state()[1].tobytes()
    d1 = digest(_mm("bs(x, df=5) + scale(x) + g", big, output="numpy"))
    d2 = digest(_mm("bs(x, df=5) + scale(x) + g", big.copy(), output="numpy"))
    if d1 != d2:
        o_big.fail("large-input-not-deterministic", f"two fresh builds of 'bs(x, df=5) + scale(x) + g' on 250000 rows differ: {d1['values'][:12]} vs {d2['values'][:12]}")
    if np.random.get_state()[1].tobytes() != rng_before:
        o_big.fail("global-state-changed", "building a model matrix on 250000 rows consumed numpy's global random state", op="large", what="numpy.random")
    stats.record("extra:large-input", {"rows": 250000, "formula": "bs(x, df=5) + scale(x) + g"}, o_big)
    return {"hash_seeds": seeds, "battery_cases": len(cases), "battery_exceptions": sum(1 for r in ref if str(r).startswith("EXC:")), "large_input_rows": 250000}


N = {"quick": 350, "thorough": 3000}
BUDGET_S = {"quick": 75, "thorough": 1500}
THOROUGH_SHARDS = 8


def campaigns(tier, shard=0, nshards=1):
    return [Campaign("history", gen_history(), check_history, N[tier])]
