"""
C06 - missing-data policy removes exactly the right rows, by position, and reports it.
"""

from __future__ import annotations

import numpy as np
from hypothesis import strategies as st

from ..core import Campaign, Outcome
from ..gen import frames as F
from ..ref import encode as E
from .C02 import dense, predict

RULE = (
    "G-frames with null masks over numeric and text/categorical columns x index kinds {default, shuffled ints, strings, "
    "non-unique, floats} x formulas whose factors propagate nulls row-wise (columns, C(col[, contrast]), I()/{} python "
    "expressions, np.exp, raw poly, hashed on a null-free column) x na_action {drop, raise, ignore} x caller drop sets "
    "x entry points {model_matrix, Formula.get_model_matrix, ModelSpec.get_model_matrix with and without option "
    "overrides, two-sided 'y ~ ...', a hand-assembled ModelSpecs mixing an earlier part with a fresh one} x outputs x rank reduction. Oracle: null positions are computed from the data and "
    "the generator's knowledge of which columns each factor reads; drop: output == R-encode(frame.iloc[kept]) with "
    "kept = positions not in (caller set U nulls) in original order, pandas index == frame.index[kept], caller's set "
    "(as ints) == caller set U nulls; raise: error iff some evaluated factor has a null; ignore: all rows kept, numeric "
    "nulls stay NaN, categorical nulls give an all-zero indicator row. Non-trivial = >=1 null row and (non-default index "
    "or caller drop set or two-sided formula or overrides); distinct by (frame, formula, options, entry)."
)
ASSUMPTIONS = [
    "whole-column statistics transforms (scale, center) are not applied to null columns (their contract, not this property's)",
    "hashed() stringifies None, so it never has nulls; it is used on a null-free column only",
    "an evaluated factor value that is NaN (I(x * y) with inf * 0) is a missing value; +-inf itself is not",
    "values compared with rtol/atol 1e-9, NaN == NaN under ignore",
]


def null_rows(fc, fr, extra_cols=()):
    n = fr["n"]
    nul = set()
    cols = set(extra_cols)
    for t in fc["terms"]:
        for f in t:
            if "col" in f:
                cols.add(f["col"])
            cols.update(f.get("cols", []))
    for c in cols:
        for i, v in enumerate(fr["cols"][c]["values"]):
            if v is None:
                nul.add(i)
    # the only generated factor whose *evaluated* value can be NaN without a null input: inf * 0
    if any(f.get("fn") == "mul" for t in fc["terms"] for f in t):
        xs, ys = fr["cols"]["x"]["values"], fr["cols"]["y"]["values"]
        for i in range(n):
            if xs[i] is not None and ys[i] is not None and np.isnan(float(xs[i]) * float(ys[i])):
                nul.add(i)
    return nul


def check_case(case) -> Outcome:
    from formulaic import Formula, ModelSpec
    from ..libio import model_matrix

    out = Outcome()
    fr, fc = case["frame"], case["formula"]
    na, entry, output, efr = case["na_action"], case["entry"], case["output"], case["efr"]
    n = fr["n"]
    df = F.build(fr)
    if case.get("lv"):
        df = df.drop(columns=["LV"])  # that "column" lives in the caller's context, as a plain list
        out.label("list-valued-context-factor")
    if case.get("index_kind") == "tz":
        # a named, timezone-aware DatetimeIndex (its .values are lossy: naive UTC)
        import pandas as pd

        df.index = pd.date_range("2024-03-30 22:00", periods=fr["n"], freq="h", tz="Europe/Berlin", name="when")
    s = F.formula_string(fc)
    caller = None if case["drop"] is None else {p % n for p in case["drop"]}
    two = entry in ("twosided", "specs-overrides", "specs-mixed")
    ycol = "z"
    nul = null_rows(fc, fr, extra_cols=[ycol] if two else [])
    feat = dict(na=na, entry=entry, output=output, index=case["index_kind"] if (fr.get("index") is not None or case.get("index_kind") == "tz") else "default")
    out.label("na:" + na, "entry:" + entry, "index:" + feat["index"], "out:" + output)
    if nul:
        out.label("has-nulls")
    out.nontrivial = bool(nul) and (fr.get("index") is not None or caller is not None or two or entry in ("spec-overrides", "materializer-reused"))
    passed = None if caller is None else set(caller)
    opts = dict(na_action=na, output=output, ensure_full_rank=efr)
    # the caller's context: a plain Python list (with NaNs that are not the numpy.nan object) used by the factor LV
    cx = {"LV": list(case["lv"])} if case.get("lv") else {}

    def run():
        if entry == "model_matrix":
            return model_matrix(s, df, drop_rows=passed, context=cx, **opts)
        if entry == "formula":
            return Formula(s).get_model_matrix(df, drop_rows=passed, context=cx, **opts)
        if entry == "spec":
            return ModelSpec.from_spec(Formula(s), **opts).get_model_matrix(df, drop_rows=passed, context=cx)
        if entry == "spec-overrides":
            return ModelSpec.from_spec(Formula(s)).get_model_matrix(df, drop_rows=passed, context=cx, **opts)
        if entry == "twosided":
            return model_matrix(f"{ycol} ~ {s}", df, drop_rows=passed, context=cx, **opts)
        if entry == "specs-overrides":
            # a structured set of specs, options given as overrides
            return ModelSpec.from_spec(Formula(f"{ycol} ~ {s}")).get_model_matrix(df, drop_rows=passed, context=cx, **opts)
        if entry == "specs-mixed":
            # a hand-assembled structured spec: one part comes from an earlier build (it remembers its materializer),
            # the other part is fresh - still one joint build, one pooled set of missing rows
            from formulaic.model_spec import ModelSpecs

            earlier = Formula(f"0 + {ycol}").get_model_matrix(df, context=cx, **opts).model_spec
            specs = ModelSpecs(lhs=earlier, rhs=ModelSpec.from_spec(Formula(s), **opts))
            return specs.get_model_matrix(df, drop_rows=passed, context=cx)
        if entry == "materializer-reused":
            # one materializer instance serving an earlier call (other formula, other dropped rows) and then this one
            from formulaic.materializers import PandasMaterializer

            m = PandasMaterializer(df, context=cx)
            try:
                m.get_model_matrix("x + y", drop_rows={fr["n"] - 1}, output=output, na_action="ignore")
            except Exception:
                pass
            return m.get_model_matrix(s, drop_rows=passed, **opts)
        raise ValueError(entry)

    if na == "raise":
        try:
            res = run()
            raised = False
        except Exception as e:  # any error counts: the statement only says "an error occurs"
            raised = True
            err = e
        if raised != bool(nul):
            out.fail("raise-iff-null", f"{s!r} entry={entry} nulls at {sorted(nul)} caller drop {caller}: " + ("raised " + repr(err)[:150] if raised else "no error"), **feat, caller_covers=bool(nul) and caller is not None and nul <= caller)
        if raised:
            out.rejected = True
            return out
        dropped = set(caller or ())
    else:
        res = run()
        dropped = set(caller or ()) | (nul if na == "drop" else set())
    kept = [i for i in range(n) if i not in dropped]
    # caller's set reports exactly the removed positions
    if passed is not None:
        got_set = {int(v) for v in passed}
        if got_set != dropped:
            out.fail("caller-set-reports-dropped-rows", f"{s!r} entry={entry} na={na}: passed {sorted(caller)}, nulls {sorted(nul)}: set afterwards {sorted(got_set)}, expected {sorted(dropped)}", **feat)
    frk = F.take_rows(fr, kept)
    parts = [("rhs", res.rhs if two else res, fc)]
    if two:
        parts.append(("lhs", res.lhs, {"intercept": False, "terms": [[{"k": "num", "col": ycol}]]}))
    for pname, mm, pfc in parts:
        M = dense(mm).reshape(-1, len(mm.model_spec.column_names)) if len(mm.model_spec.column_names) else np.zeros((getattr(mm, "shape", (len(kept), 0))[0], 0))
        if M.shape[0] != len(kept):
            out.fail("row-count", f"{s!r} entry={entry} na={na} part={pname}: {M.shape[0]} rows, expected {len(kept)} (n={n}, nulls {sorted(nul)}, caller {caller})", **feat, part=pname)
            continue
        if output == "pandas":
            exp_index = list(df.index[kept])
            if list(mm.index) != exp_index or mm.index.dtype != df.index.dtype or mm.index.name != df.index.name:
                out.fail("index-preserved", f"{s!r} entry={entry} part={pname}: index {list(mm.index)} ({mm.index.dtype}, name {mm.index.name!r}) expected {exp_index} ({df.index.dtype}, name {df.index.name!r})", **feat, part=pname)
        en, eM = predict(mm.model_spec, pfc, frk, efr)
        names = list(mm.model_spec.column_names)
        if names != en:
            out.fail("names", f"{s!r} entry={entry} part={pname}: {names} vs {en}", **feat, part=pname)
        elif eM.shape != M.shape or not np.allclose(M, eM, rtol=1e-9, atol=1e-9, equal_nan=True):
            out.fail("values-of-kept-rows", f"{s!r} entry={entry} na={na} part={pname} kept={kept}:\n got {M.tolist()}\n exp {eM.tolist()}", **feat, part=pname)
    return out


INDEX_KINDS = ("default", "default", "shuffled", "strings", "nonunique", "float")


def gen(max_rows=10):
    @st.composite
    def strat(draw):
        kind = draw(st.sampled_from(INDEX_KINDS + ("tz",)))
        fr = draw(F.frame(min_rows=1, max_rows=max_rows, nulls=True, index_kinds=(("default" if kind == "tz" else kind),)))
        if draw(st.integers(0, 2)) == 0:
            # infinite values are not missing values (a row holding +inf and -inf, or (-inf, (-inf)**2), sums to NaN)
            pos = draw(st.integers(0, fr["n"] - 1))
            signs = draw(st.sampled_from([("-inf", "inf", "-inf"), ("inf", "-inf", "-inf"), ("-inf", "-inf", "inf")]))
            for c, sg in zip(("x", "y", "z"), signs):
                if fr["cols"][c]["dtype"] == "float64" and fr["cols"][c]["values"][pos] is not None:
                    fr["cols"][c]["values"][pos] = float(sg)
        fc = draw(F.formulas(max_terms=3, max_factors=2))
        if draw(st.integers(0, 11)) == 0:
            fc = {"intercept": False, "terms": []}  # a part without any column still has rows (and an index)
        elif draw(st.integers(0, 5)) == 0:
            fc = {"intercept": fc["intercept"], "terms": F.normalize_terms(fc["terms"] + [[{"k": "hashed", "col": "G", "levels": 3}]])}
        na = draw(st.sampled_from(["drop", "drop", "drop", "raise", "ignore"]))
        lv = None
        if draw(st.integers(0, 5)) == 0:
            # a numeric factor that is a plain Python list in the caller's context; its missing values are NaNs produced
            # by arithmetic (not the numpy.nan object) or None
            vals = draw(st.lists(st.sampled_from([1.5, -2.0, 0.0, 3.25, None, None]), min_size=fr["n"], max_size=fr["n"]))
            fr["cols"]["LV"] = {"dtype": "float64", "values": vals}
            lv = [float("inf") - float("inf") if v is None else v for v in vals]
            fc = {"intercept": fc["intercept"], "terms": F.normalize_terms(fc["terms"] + [[{"k": "num", "col": "LV"}]])}
        return {
            "lv": lv,
            "frame": fr, "index_kind": kind, "formula": fc, "na_action": na,
            "drop": draw(st.one_of(st.none(), st.lists(st.integers(0, 30), max_size=4), st.lists(st.integers(0, 19), min_size=2, max_size=6),
                                     # sets of small ints that do not iterate in sorted order
                                     st.sampled_from([[1, 3, 10], [0, 2, 9, 11], [2, 12, 4], [5, 8, 6], [3, 17, 4, 9]]))),
            "entry": draw(st.sampled_from(["model_matrix", "formula", "spec", "spec-overrides", "twosided", "specs-overrides", "materializer-reused", "specs-mixed"])),
            "output": draw(st.sampled_from(["pandas", "pandas", "numpy", "sparse"])),
            "efr": draw(st.booleans()),
        }

    return strat()


BUDGET_S = {"quick": 110, "thorough": 1500}


def campaigns(tier, shard=0, nshards=1):
    # (frames of more than 8 rows matter: the iteration order of a set of small ints is only sorted below 8)
    return [Campaign("policy", gen(20 if tier == "quick" else 28), check_case, 1500 if tier == "quick" else 12000)]
