"""
C16 - linear-constraint specifications compile to the affine map they express.
"""

from __future__ import annotations

from fractions import Fraction

import numpy as np
from hypothesis import strategies as st

from ..core import Campaign, Outcome

RULE = (
    "Expression trees over 1-6 column names (identifiers and backtick-quoted names such as A[T.x], a:b, 'c d'), decimal "
    "literals (3, .5, 2., 0), + - * /, unary signs at the start of an expression/parenthesis, parentheses - linear by "
    "construction (at most one non-constant side per product, non-zero constant divisors); constraints 'lhs' or "
    "'lhs = rhs' joined by ','; given as one string, a list of strings, or a mapping {expression: number}; also through "
    "ModelSpec.get_linear_constraints with real column names. Oracle: exact Fraction evaluation of the tree at the n+1 "
    "points 0,e1..en determines the affine map; A and b must satisfy A.x - b = lhs(x) - rhs(x) there (rtol 1e-9), one "
    "row per constraint in order. Non-linear class (a*b, a/b, 1/a, (a+1)*(b+1), a*a) must raise. Non-trivial = a product "
    "distributing over a sum, or a repeated variable, or constants on both sides of '='; distinct by specification."
)
ASSUMPTIONS = [
    "rejections of linear specifications (e.g. a sign directly after '*' or '=') are counted, not flagged: the statement constrains what is returned",
    "scientific notation and names absent from the variable list are not generated",
]

# (includes quoted names that look like numbers: `2019`, `1e3`)
VARS = ["a", "2019", "b", "A[T.x]", "a:b", "c d", "1e3", "c"]
NUMS = ["0", "1", "2", "3", "5", ".5", "2.5", "10", "0.25", "2.", "7"]


def q(v):
    return v if v.isidentifier() else "`" + v + "`"


# tree: ["v", name] | ["k", "2.5"] | ["+", l, r] | ["-", l, r] | ["*", l, r] | ["/", l, r] | ["neg", e] | ["pos", e] | ["()", e]


def const_expr(max_leaves=2):
    leaf = st.sampled_from(NUMS).map(lambda s: ["k", s])
    return st.recursive(
        leaf,
        lambda ch: st.one_of(
            st.tuples(st.sampled_from(["+", "-", "*"]), ch, ch).map(lambda t: [t[0], t[1], t[2]]),
            ch.map(lambda e: ["()", e]),
        ),
        max_leaves=max_leaves,
    )


def lin_expr(nvars, max_leaves=6):
    var = st.integers(0, nvars - 1).map(lambda i: ["v", VARS[i]])
    k = const_expr()
    leaf = st.one_of(var, var, var, k)

    def ext(ch):
        pos = st.sampled_from([n for n in NUMS if n != "0"]).map(lambda s: ["k", s])
        nz = st.one_of(pos, pos, st.tuples(pos, pos).map(lambda t: ["()", ["+", t[0], t[1]]]), st.tuples(pos, pos).map(lambda t: ["()", ["*", t[0], t[1]]]))
        return st.one_of(
            st.tuples(st.sampled_from(["+", "-"]), ch, ch).map(lambda t: [t[0], t[1], t[2]]),
            st.tuples(st.sampled_from(["+", "-"]), ch, ch).map(lambda t: [t[0], t[1], t[2]]),
            st.tuples(k, ch).map(lambda t: ["*", t[0], t[1]]),
            st.tuples(ch, k).map(lambda t: ["*", t[0], t[1]]),
            st.tuples(ch, nz).map(lambda t: ["/", t[0], t[1]]),
            ch.map(lambda e: ["()", e]),
            ch.map(lambda e: ["neg", e]),
            ch.map(lambda e: ["pos", e]),
        )

    return st.recursive(leaf, ext, max_leaves=max_leaves)


def ev(node, env):
    k = node[0]
    if k == "v":
        return env.get(node[1], Fraction(0))
    if k == "k":
        s = node[1]
        return Fraction(s if not s.endswith(".") else s + "0") if not s.startswith(".") else Fraction("0" + s)
    if k == "()":
        return ev(node[1], env)
    if k == "neg":
        return -ev(node[1], env)
    if k == "pos":
        return ev(node[1], env)
    a, b = ev(node[1], env), ev(node[2], env)
    if k == "+":
        return a + b
    if k == "-":
        return a - b
    if k == "*":
        return a * b
    if k == "/":
        return a / b
    raise ValueError(node)


PREC = {"+": 1, "-": 1, "*": 2, "/": 2}


def render(node, parent=0, side=None, leading=True):
    """Minimal parentheses; unary signs only in leading position (else parenthesised)."""
    k = node[0]
    if k == "v":
        return q(node[1])
    if k == "k":
        return node[1]
    if k == "()":
        return "(" + render(node[1], 0, None, True) + ")"
    if k in ("neg", "pos"):
        sign = "-" if k == "neg" else "+"
        inner = render(node[1], 1, "r", False)  # binds like + -: the operand is a product-level expression
        txt = sign + inner
        if not leading or parent >= 1 and side == "r" or parent > 1:
            return "(" + txt + ")"
        return txt
    p = PREC[k]
    left = render(node[1], p, "l", leading)
    right = render(node[2], p, "r", False)
    txt = f"{left} {k} {right}"
    if p < parent or (p == parent and side == "r"):
        return "(" + txt + ")"
    return txt


def features(node, acc=None):
    acc = acc if acc is not None else {"vars": [], "dist": False}
    k = node[0]
    if k == "v":
        acc["vars"].append(node[1])
    elif k in ("()", "neg", "pos"):
        features(node[1], acc)
    elif k != "k":
        if k in "*/":
            for side in (node[1], node[2]):
                inner = side
                while inner[0] == "()":
                    inner = inner[1]
                if inner[0] in "+-":
                    acc["dist"] = True
        features(node[1], acc)
        features(node[2], acc)
    return acc


def check_spec(case) -> Outcome:
    from formulaic.utils.constraints import LinearConstraints

    out = Outcome()
    nv = case["nvars"]
    names = VARS[:nv]
    cons = case["constraints"]  # list of {"lhs": tree, "rhs": tree|None}
    form = case["form"]
    strs = []
    for ci, c in enumerate(cons):
        # a leading sign of a later constraint would fuse with the ',' separator (',-' is an unknown operator)
        s = render(c["lhs"], 0, None, ci == 0 or form == "mapping" or bool(case.get("rhs_leading_sign")))
        if c.get("rhs") is not None:
            # a sign directly after '=' fuses into an unknown operator ('=-'): rendered parenthesised except in a
            # small labelled class, so that rejections stay rare
            s += " = " + render(c["rhs"], 0, None, bool(case.get("rhs_leading_sign")))
        strs.append(s)
    feats = [features(c["lhs"]) for c in cons] + [features(c["rhs"]) for c in cons if c.get("rhs") is not None]
    allvars = [v for f in feats for v in f["vars"]]
    both_const = any(c.get("rhs") is not None and ev(c["lhs"], {}) != 0 and ev(c["rhs"], {}) != 0 for c in cons)
    out.nontrivial = any(f["dist"] for f in feats) or len(allvars) != len(set(allvars)) or both_const
    out.label("form:" + form)
    values = case.get("values") or []
    if form == "string":
        spec = ", ".join(strs)
    elif form == "list":
        spec = strs
    else:
        strs = [render(c["lhs"]) for c in cons]
        if len(set(strs)) != len(strs):
            out.label("excluded:duplicate-mapping-keys")
            return out
        spec = {s: values[i % len(values)] if values else 0 for i, s in enumerate(strs)}
        if any(v != 0 and (abs(v) < 1e-4 or abs(v) >= 1e6 or float(f"{v:.6g}") != v) for v in spec.values()):
            out.label("mapping-value:many-digits-or-extreme")
    try:
        lc = LinearConstraints.from_spec(spec, variable_names=names)
    except Exception as e:
        # a rejection of a linear specification is counted (e.g. operators fused with a sign)
        if form == "mapping":
            # ... but the number a mapping key is set to takes no part in parsing: the same keys set to 0 must be refused too
            try:
                LinearConstraints.from_spec({k: 0 for k in spec}, variable_names=names)
                out.fail("mapping-value-changes-acceptance", f"{spec!r} is refused ({type(e).__name__}: {str(e)[:100]}) but the same keys set to 0 are accepted", form=form)
                return out
            except Exception:
                pass
        out.rejected = True
        out.label("rejected:" + type(e).__name__)
        out.nontrivial = False
        return out
    A = np.asarray(lc.constraint_matrix, dtype=float)
    b = np.asarray(lc.constraint_values, dtype=float)
    if A.shape != (len(cons), nv) or b.shape != (len(cons),):
        out.fail("shape", f"{spec!r}: A{A.shape} b{b.shape} for {len(cons)} constraints over {nv} names", form=form)
        return out
    for i, c in enumerate(cons):
        def f(env):
            v = ev(c["lhs"], env)
            if form == "mapping":
                return v - Fraction(str(list(spec.values())[i]))
            if c.get("rhs") is not None:
                v -= ev(c["rhs"], env)
            return v

        c0 = f({})
        if not np.isclose(-b[i], float(c0), rtol=1e-9, atol=1e-12):
            out.fail("constant", f"{spec!r}: row {i}: b={b[i]} but lhs(0)-rhs(0)={c0}", form=form)
        for j, v in enumerate(names):
            cj = f({v: Fraction(1)}) - c0
            if not np.isclose(A[i, j], float(cj), rtol=1e-9, atol=1e-12):
                out.fail("coefficient", f"{spec!r}: row {i} column {v!r}: A={A[i, j]} but the expression has coefficient {cj}", form=form)
    if list(lc.variable_names) != names:
        out.fail("variable-names", f"{lc.variable_names}", form=form)
    return out


def check_nonlinear(case) -> Outcome:
    from formulaic.utils.constraints import LinearConstraints

    out = Outcome()
    out.nontrivial = True
    out.rejected = True
    s = case["s"]
    out.label("nonlinear")
    try:
        lc = LinearConstraints.from_spec(s, variable_names=["a", "b", "c"])
    except Exception:
        return out
    out.fail("nonlinear-accepted", f"{s!r} compiled to A={np.asarray(lc.constraint_matrix).tolist()} b={np.asarray(lc.constraint_values).tolist()}", kind=case["kind"])
    return out


def check_modelspec(case) -> Outcome:
    import pandas as pd
    from ..libio import model_matrix

    out = Outcome()
    df = pd.DataFrame({"x": [1.0, 2.0, 3.0, 4.0], "A": pd.Categorical(["u", "v", "w", "u"]), "z": [0.5, 0.1, 0.2, 0.9]})
    mm = model_matrix("x + A + x:A + z", df)
    names = list(mm.model_spec.column_names)
    picks = [names[i % len(names)] for i in case["picks"]]
    coefs = case["coefs"]
    expr = " + ".join(f"{c} * {q(n)}" for c, n in zip(coefs, picks))
    rhs = case["rhs"]
    spec = f"{expr} = {rhs}"
    out.nontrivial = len(picks) != len(set(picks)) or len(picks) >= 2
    out.label("modelspec")
    lc = mm.model_spec.get_linear_constraints(spec)
    A = np.asarray(lc.constraint_matrix, dtype=float)
    b = np.asarray(lc.constraint_values, dtype=float)
    expA = np.zeros(len(names))
    for c, n in zip(coefs, picks):
        expA[names.index(n)] += float(Fraction(c if not c.startswith(".") else "0" + c))
    if A.shape != (1, len(names)) or not np.allclose(A[0], expA) or not np.isclose(b[0], float(Fraction(rhs))):
        out.fail("modelspec-constraints", f"{spec!r}: A={A.tolist()} b={b.tolist()} expected {expA.tolist()} / {rhs}")
    return out


class _Builder:
    """Builds expression trees from a list of drawn integers (cheap to generate, shrinks towards small trees)."""

    def __init__(self, ints, nvars):
        self.ints, self.i, self.nv = ints, 0, nvars

    def nxt(self, m):
        v = self.ints[self.i % len(self.ints)] if self.ints else 0
        self.i += 1
        return v % m

    def const(self, depth=0):
        c = self.nxt(6) if depth < 2 and self.i < len(self.ints) else 0
        if c <= 2:
            return ["k", NUMS[self.nxt(len(NUMS))]]
        if c == 3:
            return [["+", "-", "*"][self.nxt(3)], self.const(depth + 1), self.const(depth + 1)]
        if c == 4:
            return ["()", self.const(depth + 1)]
        return ["k", NUMS[self.nxt(len(NUMS))]]

    def nonzero(self):
        pos = [n for n in NUMS if n != "0"]
        c = self.nxt(4)
        a, b = ["k", pos[self.nxt(len(pos))]], ["k", pos[self.nxt(len(pos))]]
        return a if c <= 1 else ["()", ["+" if c == 2 else "*", a, b]]

    def lin(self, depth=0):
        if depth >= 4 or self.i >= len(self.ints):
            return ["v", VARS[self.nxt(self.nv)]] if self.nxt(4) else self.const(2)
        c = self.nxt(12)
        if c <= 2:
            return ["v", VARS[self.nxt(self.nv)]]
        if c == 3:
            return self.const()
        if c <= 5:
            return [["+", "-"][self.nxt(2)], self.lin(depth + 1), self.lin(depth + 1)]
        if c == 6:
            return ["*", self.const(1), self.lin(depth + 1)]
        if c == 7:
            return ["*", self.lin(depth + 1), self.const(1)]
        if c == 8:
            return ["/", self.lin(depth + 1), self.nonzero()]
        if c == 9:
            return ["()", self.lin(depth + 1)]
        if c == 10:
            return ["neg", self.lin(depth + 1)]
        return ["pos", self.lin(depth + 1)]


def gen_spec():
    @st.composite
    def strat(draw):
        nv = draw(st.integers(1, 8))
        n = draw(st.integers(1, 3))
        cons = []
        for _ in range(n):
            b = _Builder(draw(st.lists(st.integers(0, 359), min_size=1, max_size=30)), nv)
            lhs = b.lin()
            rhs = None
            if draw(st.booleans()):
                rhs = _Builder(draw(st.lists(st.integers(0, 359), min_size=1, max_size=12)), nv).lin(1)
            cons.append({"lhs": lhs, "rhs": rhs})
        form = draw(st.sampled_from(["string", "string", "list", "mapping"]))
        # (mapping values are numbers, never text: all their digits count, whatever their magnitude)
        vals = draw(st.lists(st.one_of(st.sampled_from([0, 1, -2, 3.5, 10, 3.14159265358979, 1234567.5, 0.00001, -7.25e15, 1e-12, 2**40 + 1]),
                                       st.floats(min_value=-1e9, max_value=1e9, allow_nan=False, allow_infinity=False)), min_size=1, max_size=3))
        return {"nvars": nv, "constraints": cons, "form": form, "values": vals, "rhs_leading_sign": draw(st.integers(0, 9)) == 0}

    return strat()


def gen_nonlinear():
    v = st.sampled_from(["a", "b", "c"])
    k = st.sampled_from(["2", "3", ".5"])
    return st.one_of(
        st.builds(lambda x, y: {"s": f"{x} * {y}", "kind": "var*var"}, v, v),
        st.builds(lambda x, y: {"s": f"{x} / {y}", "kind": "var/var"}, v, v),
        st.builds(lambda x, c: {"s": f"{c} / {x}", "kind": "const/var"}, v, k),
        st.builds(lambda x, y, c: {"s": f"({x} + {c}) * ({y} + 1)", "kind": "(var+c)*(var+c)"}, v, v, k),
        st.builds(lambda x, y, c: {"s": f"{x} / ({y} + {c})", "kind": "var/(var+c)"}, v, v, k),
        st.builds(lambda x, y, c: {"s": f"{c} / (1 + {y}) = {x}", "kind": "const/(c+var)"}, v, v, k),
        st.builds(lambda x, y, c: {"s": f"{x} + {c} * {y} * {x} = 2", "kind": "c*var*var"}, v, v, k),
        st.builds(lambda x, y, c: {"s": f"{x} = {y}, {x} * ({y} - {c})", "kind": "second-constraint"}, v, v, k),
    )


def gen_modelspec():
    return st.fixed_dictionaries(
        {
            "picks": st.lists(st.integers(0, 20), min_size=1, max_size=4),
            "coefs": st.lists(st.sampled_from(["1", "2", ".5", "3", "0.25"]), min_size=4, max_size=4),
            "rhs": st.sampled_from(["0", "1", "2.5", "10"]),
        }
    )


N = {"quick": (3000, 400, 300), "thorough": (40000, 3000, 2000)}
BUDGET_S = {"quick": 60, "thorough": 1200}


def campaigns(tier, shard=0, nshards=1):
    n = N[tier]
    return [
        Campaign("spec", gen_spec(), check_spec, n[0]),
        Campaign("nonlinear", gen_nonlinear(), check_nonlinear, n[1]),
        Campaign("modelspec", gen_modelspec(), check_modelspec, n[2]),
    ]
