"""
C08 - text and categorical columns are dummy-coded; the matrix is always numeric.
"""

from __future__ import annotations

import numpy as np
from hypothesis import strategies as st

from ..core import Campaign, Outcome
from ..gen import frames as F
from ..ref import encode as E

RULE = (
    "Frames with a column 'v' of every dtype a supported dataframe library produces for text / categorical / numeric "
    "data (object, str, string[python], string[pyarrow], nullable Int64/UInt8/boolean/Float64 and Arrow-backed int/bool with NA, category with declared order != sorted and unobserved "
    "categories over string or integer categories, int8..int64, uint8..uint64, float32/64, bool) plus a float column "
    "and a second categorical; formulas v, v + a, v:a, v:B, a + v + v:a; outputs pandas/numpy/sparse x materializers "
    "{pandas, narwhals on pandas, narwhals on pyarrow} x rank reduction x (string formula | one Formula object first "
    "materialised on a frame where v has the other kind). Oracle: R-encode (indicator columns in sorted "
    "order for text, declared order for categorical dtype; numeric columns unchanged), names and values; every output "
    "has a numeric dtype (kind in b/i/u/f) and no string/object cell. Non-trivial = v is text or categorical, or a nullable numeric dtype holding a missing value; distinct "
    "by (dtype, values, formula, output, materializer, rank reduction)."
)
ASSUMPTIONS = [
    "values compared with rtol 1e-6 for float32 inputs, 1e-9 otherwise",
    "column dtype beyond 'numeric kind' is not asserted",
]

TEXT = ["object", "str", "string", "string[pyarrow]"]
INTS = ["int8", "int16", "int32", "int64", "uint8", "uint16", "uint32", "uint64"]
FLOATS = ["float32", "float64"]
# nullable (masked / Arrow-backed) numeric dtypes: may hold missing values although their kind is i / u / b
NULLABLE = ["Int64", "UInt8", "boolean", "Float64", "int64[pyarrow]", "bool[pyarrow]"]
FORMULAS = [
    [["v"]], [["v"], ["a"]], [["v", "a"]], [["v", "B"]], [["a"], ["v"], ["v", "a"]], [["B"], ["B", "v"]],
]


def build_df(case):
    import pandas as pd

    dt, vals = case["dtype"], case["values"]
    if dt in TEXT:
        v = pd.Series(vals, dtype=dt)
    elif dt == "category":
        v = pd.Categorical(vals, categories=case["categories"])
    elif dt == "bool":
        v = np.array(vals, dtype=bool)
    elif dt in NULLABLE:
        v = pd.array([None if x is None else (bool(x) if "bool" in dt else x) for x in vals], dtype=dt)
    else:
        v = np.array(vals, dtype=dt)
    n = len(vals)
    df = pd.DataFrame({"v": v, "a": np.array(case["a"][:n], dtype=float), "B": pd.Series([["q", "p", "r"][i % 3] for i in case["b"][:n]], dtype=object)})
    if case.get("index") == "rev":
        # row labels that are not 0..n-1 (values must never be re-aligned on labels)
        df.index = [3 + n - i for i in range(n)]
    return df


def frame_case(case):
    dt = case["dtype"]
    n = len(case["values"])
    if dt in TEXT:
        v = {"dtype": "object", "values": list(case["values"])}
    elif dt == "category":
        v = {"dtype": "category", "values": list(case["values"]), "categories": list(case["categories"])}
    else:
        v = {"dtype": "float64", "values": [None if x is None else float(x) for x in case["values"]]}
    return {
        "n": n,
        "cols": {"v": v, "a": {"dtype": "float64", "values": list(case["a"][:n])}, "B": {"dtype": "object", "values": [["q", "p", "r"][i % 3] for i in case["b"][:n]]}},
        "index": None,
    }


def check_case(case) -> Outcome:
    import pandas as pd
    from ..libio import model_matrix
    from .C02 import predict

    out = Outcome()
    dt, mat, output, efr = case["dtype"], case["mat"], case["output"], case["efr"]
    textual = dt in TEXT or dt == "category"
    out.nontrivial = textual
    na = case.get("na_action", "drop")
    if (textual or dt in NULLABLE) and (case.get("nulls") or case.get("allnull")):
        nulled = set(range(len(case["values"]))) if case.get("allnull") else {p % len(case["values"]) for p in case["nulls"]}
        case = dict(case, values=[None if i in nulled else v for i, v in enumerate(case["values"])])
        if all(v is None for v in case["values"]) and not (dt in TEXT and mat != "nw-arrow" and na == "ignore"):
            # an entirely null column has no observable dtype left after an Arrow round trip: not generated
            # (an all-missing object column kept under "ignore" is: it is text with no observed level)
            out.label("excluded:all-null-column")
            out.nontrivial = False
            return out
        out.label("nulls:" + na)
        if dt in NULLABLE:
            out.nontrivial = True
    df = build_df(case)
    fr = frame_case(case)
    if na == "drop":
        kept = [i for i, v in enumerate(case["values"]) if v is not None]
        fr = F.take_rows(fr, kept)
    vk = {"k": "cat", "col": "v"} if textual else {"k": "num", "col": "v"}
    if dt == "category" and case.get("explicit_levels") and len(case["categories"]) >= 2:
        # the same categories requested through C(v, levels=[...]) in another order than the dtype declares them
        cats_ = list(case["categories"])
        vk = {"k": "C", "col": "v", "contrast": None, "levels": cats_[1:] + cats_[:1]}
        out.label("explicit-levels-other-order")
    fmap = {"v": vk, "a": {"k": "num", "col": "a"}, "B": {"k": "cat", "col": "B"}}
    terms = [[fmap[x] for x in t] for t in FORMULAS[case["formula"] % len(FORMULAS)]]
    fc = {"intercept": case["intercept"], "terms": F.normalize_terms(terms)}
    s = F.formula_string(fc)
    feat = dict(dtype=dt, mat=mat, output=output)
    out.label("dtype:" + dt, "mat:" + mat, "out:" + output)
    if mat == "pandas":
        data, kw = df, {}
    elif mat == "nw-pandas":
        data, kw = df, {"materializer": "narwhals"}
    elif mat == "pandas-dict":
        # the same columns handed over as a plain mapping of Series
        data, kw = {c: df[c] for c in df.columns}, {"materializer": "pandas"}
    else:
        import pyarrow as pa

        data, kw = pa.Table.from_pandas(df, preserve_index=False), {}
    if case.get("prime"):
        # one Formula object, first materialised on a frame in which 'v' has the *other* kind: what it learnt there
        # (a factor's kind, caches) must not decide how this frame's column is treated
        from formulaic import Formula

        out.label("primed-formula-object")
        fobj = Formula(s)
        n0 = len(df)
        other = df.assign(v=np.arange(n0, dtype=float) if textual else pd.Series([["u", "w", "k"][i % 3] for i in range(n0)], dtype=object))
        if mat == "nw-arrow":
            import pyarrow as pa

            other = pa.Table.from_pandas(other, preserve_index=False)
        try:
            fobj.get_model_matrix(other, output=output, ensure_full_rank=efr, na_action=na, context={}, **kw)
        except Exception:
            pass
        mm = fobj.get_model_matrix(data, output=output, ensure_full_rank=efr, na_action=na, context={}, **kw)
    else:
        mm = model_matrix(s, data, output=output, ensure_full_rank=efr, na_action=na, **kw)
    names = list(mm.model_spec.column_names)
    raw = mm.toarray() if hasattr(mm, "toarray") else (mm.to_numpy() if hasattr(mm, "to_numpy") else np.asarray(mm))
    # numeric dtype everywhere
    if output == "pandas":
        bad = [str(c) for c, d in zip(mm.columns, mm.dtypes) if getattr(d, "kind", "O") not in "biuf"]
        if bad:
            out.fail("numeric-dtype", f"{s!r} on dtype {dt} via {mat}: pandas columns {bad} have dtypes {[str(d) for d in mm.dtypes]}", **feat)
    else:
        kind = raw.dtype.kind
        if kind not in "biuf":
            out.fail("numeric-dtype", f"{s!r} on dtype {dt} via {mat}, output {output}: array dtype {raw.dtype}", **feat)
    try:
        got = np.asarray(raw, dtype=float).reshape(fr["n"], len(names))
    except (ValueError, TypeError) as e:
        out.fail("non-numeric-cell", f"{s!r} on dtype {dt} via {mat}, output {output}: {str(e)[:120]}; sample {np.asarray(raw).ravel()[:6].tolist()}", **feat)
        return out
    if output == "pandas" and dt in ("int64", "uint64", "Int64") and "v" in list(mm.columns) and mat == "pandas" and all(v_ is not None for v_ in case["values"]) and max(case["values"]) > 2**53:
        # exact pass-through of integers beyond the float mantissa
        out.label("big-integers")
        col_ = mm["v"]
        if getattr(col_.dtype, "kind", "O") not in "iu" or [int(x_) for x_ in col_] != [int(x_) for x_ in case["values"]]:
            out.fail("integer-column-unchanged", f"{s!r} (ensure_full_rank={efr}): column v is {col_.dtype} {[int(x_) for x_ in col_]} for input {case['values']}", **feat)
    en, eM = predict(mm.model_spec, fc, fr, efr)
    if names != en:
        out.fail("names", f"{s!r} on {dt} {case['values']} cats={case.get('categories')} via {mat}: {names} vs {en}", **feat)
    elif got.shape != eM.shape or not np.allclose(got, eM, rtol=1e-6 if dt == "float32" else 1e-9, atol=1e-9, equal_nan=(na == "ignore")):
        out.fail("values", f"{s!r} on {dt} {case['values']} via {mat}, output {output}:\n got {got.tolist()}\n exp {eM.tolist()}", **feat)
    return out


def gen():
    @st.composite
    def strat(draw):
        dt = draw(st.sampled_from(TEXT + ["category", "category"] + INTS + FLOATS + ["bool"] + NULLABLE))
        n = draw(st.integers(1, 8))
        cats = None
        if dt in TEXT:
            vals = draw(st.lists(st.sampled_from(["b", "a", "c", "ü x", "B"]), min_size=n, max_size=n))
        elif dt == "category":
            if draw(st.booleans()):
                pool = draw(st.permutations(["b", "a", "c", "zz"]))
            else:
                pool = draw(st.permutations([3, 1, 2, 10]))
            k = draw(st.integers(1, 4))
            cats = list(pool[:k])
            vals = draw(st.lists(st.sampled_from(cats[: max(1, k - draw(st.integers(0, 1)))]), min_size=n, max_size=n))
        elif dt == "bool" or (dt in NULLABLE and "bool" in dt):
            vals = draw(st.lists(st.booleans(), min_size=n, max_size=n))
        elif dt in NULLABLE and dt != "Float64":
            vals = draw(st.lists(st.integers(0, 200), min_size=n, max_size=n))
            if dt == "Int64" and draw(st.integers(0, 3)) == 0:
                vals[0] = 2**53 + 1
        elif dt in INTS:
            hi = {"int8": 127, "uint8": 255}.get(dt, 30000)
            lo = 0 if dt.startswith("u") else -min(hi, 100)
            vals = draw(st.lists(st.integers(lo, hi), min_size=n, max_size=n))
            if dt in ("int64", "uint64") and draw(st.integers(0, 3)) == 0:
                vals[0] = 2**53 + 1  # not representable as a float: an integer column passes through unchanged
        else:
            vals = draw(st.lists(st.sampled_from([-2.5, -1.0, 0.0, 0.5, 1.0, 3.0, 100.0]), min_size=n, max_size=n))
        allnull = dt in TEXT and draw(st.integers(0, 3)) == 0
        if allnull:
            dt = draw(st.sampled_from(["object", "object", dt]))
        return {
            "index": draw(st.sampled_from([None, None, "rev"])),
            "dtype": dt, "values": vals, "categories": cats,
            "a": draw(st.lists(st.sampled_from([-1.0, 0.5, 1.0, 2.0, 3.0]), min_size=8, max_size=8)),
            "b": draw(st.lists(st.integers(0, 2), min_size=8, max_size=8)),
            "formula": draw(st.integers(0, len(FORMULAS) - 1)), "intercept": draw(st.booleans()),
            # (an entirely missing text column is only observable without an Arrow round trip, and kept under "ignore")
            "mat": draw(st.sampled_from(["pandas", "nw-pandas", "nw-pandas", "pandas-dict"] if allnull else ["pandas", "pandas", "nw-pandas", "nw-arrow", "pandas-dict"])),
            "output": draw(st.sampled_from(["pandas", "numpy", "sparse"])), "efr": draw(st.booleans()),
            "nulls": draw(st.one_of(st.just([]), st.just([]), st.lists(st.integers(0, 7), min_size=1, max_size=2))),
            "prime": draw(st.integers(0, 4)) == 0,
            "explicit_levels": draw(st.integers(0, 3)) == 0,
            "allnull": allnull,
            "na_action": draw(st.sampled_from(["ignore", "ignore", "drop"] if allnull else ["drop", "drop", "ignore"])),
        }

    return strat()


BUDGET_S = {"quick": 70, "thorough": 1500}


def campaigns(tier, shard=0, nshards=1):
    return [Campaign("dtypes", gen(), check_case, 4000 if tier == "quick" else 30000)]
