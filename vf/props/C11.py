"""
C11 - built-in contrast codings are valid and standard for every level count.
"""

from __future__ import annotations

import itertools
import warnings

import numpy as np
from hypothesis import strategies as st

from ..core import Campaign, Outcome
from ..ref import contrasts as RC

RULE = (
    "grid (exhaustive): n=1..8 (quick) / 1..12 (thorough) x {treatment default + every base, SAS default + every base, "
    "sum, helmert reverse x scale, diff backward x2, poly without scores and with 3 score vectors} x {dense, sparse} x "
    "3 label kinds; oracle = algebraic laws (shape, rank of [1|C], identity full coding, coefficient = inverse, zero "
    "column sums, dense==sparse, metadata consistency) AND equality with the from-scratch R/MASS/patsy reference "
    "(vf/ref/contrasts.py). encode (generated): data vectors over the levels with absent levels, out-of-level values "
    "and nulls, explicit levels= lists, reduced_rank, 3 outputs, called directly and through model_matrix('C(x, contr...)') incl. the patsy spellings Treatment/Sum/Helmert/Diff/Poly and the two-sided form 'C(..) ~ C(..)' (full then reduced coding of one factor); "
    "oracle = indicator(data, levels) @ reference coding, names, reference level. Non-trivial = n >= 2; distinct by cell / case."
)
ASSUMPTIONS = [
    "numerical tolerance 1e-9 absolute on coding entries (poly: 1e-8)",
    "sparse container type and coefficient-matrix row names are not asserted",
    "level labels of mixed python types are not generated (pandas cannot sort them)",
]
TOL = 1e-9


def labels(n, kind):
    if kind == "str":
        return [chr(ord("a") + i) for i in range(n)]
    if kind == "int":
        return [10 * (i + 1) for i in range(n)]
    if kind == "zero":
        # includes falsy labels (0) away from the first position
        return [i - 1 for i in range(n)]
    # given order differs from sorted order
    pool = ["m", "b", "z", "a", "q", "c", "y", "d", "x", "e", "w", "f", "v", "g"]
    return pool[:n]


def specs_for(n, levels):
    out = [{"kind": "treatment"}, {"kind": "SAS"}, {"kind": "sum"}]
    for l in levels:
        out.append({"kind": "treatment", "base": l})
        out.append({"kind": "SAS", "base": l})
    for rev, sc in itertools.product([True, False], [True, False]):
        out.append({"kind": "helmert", "reverse": rev, "scale": sc})
    out += [{"kind": "diff", "backward": True}, {"kind": "diff", "backward": False}, {"kind": "poly"}]
    if n >= 1:
        out.append({"kind": "poly", "scores": [i * i + 1 for i in range(n)]})
        out.append({"kind": "poly", "scores": [0.5 * i + (0.25 if i % 2 else 0) for i in range(n)]})
        out.append({"kind": "poly", "scores": [-3 + 2 * i for i in range(n)]})
        # scores that are not in ascending order
        out.append({"kind": "poly", "scores": [float(n - i) for i in range(n)]})
        out.append({"kind": "poly", "scores": [((i * 3) % n) + 0.25 * i for i in range(n)]})
    return out


def dense(m):
    if hasattr(m, "toarray"):
        return np.asarray(m.toarray(), dtype=float)
    if hasattr(m, "values"):
        return np.asarray(m.values, dtype=float)
    return np.asarray(m, dtype=float)


def check_cell(case) -> Outcome:
    from formulaic.transforms.contrasts import ContrastsState

    out = Outcome()
    spec, n, lk, sparse = case["spec"], case["n"], case["labels"], case["sparse"]
    levels = labels(n, lk)
    out.nontrivial = n >= 2
    out.label(f"kind:{spec['kind']}", f"n:{n}", "sparse" if sparse else "dense")
    c = RC.make(spec)
    feat = dict(kind=spec["kind"], opts=",".join(f"{k}" for k in sorted(spec) if k not in ("kind", "base", "scores")))
    A = dense(c.get_coding_matrix(levels, reduced_rank=True, sparse=sparse)).reshape(n, -1)
    if A.shape != (n, max(n - 1, 0)):
        out.fail("reduced-shape", f"{spec} n={n}: shape {A.shape}", **feat)
        return out
    F = dense(c.get_coding_matrix(levels, reduced_rank=False, sparse=sparse)).reshape(n, -1)
    if F.shape != (n, n) or not np.array_equal(F, np.eye(n)):
        out.fail("full-coding-identity", f"{spec} n={n}: {F}", **feat)
    X = np.hstack([np.ones((n, 1)), A])
    if np.linalg.matrix_rank(X) != n:
        out.fail("invertible-with-constant", f"{spec} n={n}: rank {np.linalg.matrix_rank(X)}\n{A}", **feat)
    else:
        K = dense(c.get_coefficient_matrix(levels, reduced_rank=True, sparse=sparse)).reshape(n, n)
        if not np.allclose(K @ X, np.eye(n), atol=1e-8):
            out.fail("coefficient-is-inverse", f"{spec} n={n}:\nK={K}\nX={X}", **feat)
        Kf = dense(c.get_coefficient_matrix(levels, reduced_rank=False, sparse=sparse)).reshape(n, n)
        if not np.allclose(Kf, np.eye(n), atol=1e-8):
            out.fail("coefficient-full-identity", f"{spec} n={n}: {Kf}", **feat)
    if spec["kind"] in ("sum", "helmert", "diff", "poly") and n >= 2:
        if not np.allclose(A.sum(axis=0), 0, atol=1e-8):
            out.fail("columns-sum-to-zero", f"{spec} n={n}: sums {A.sum(axis=0)}", **feat)
    R = RC.coding(spec, n, levels)
    tol = 1e-8 if spec["kind"] == "poly" else TOL
    if not np.allclose(A, R, atol=tol):
        out.fail("equals-standard-definition", f"{spec} n={n} labels={lk} sparse={sparse}:\n got {A}\n ref {R}", **feat)
    other = dense(c.get_coding_matrix(levels, reduced_rank=True, sparse=not sparse)).reshape(n, -1)
    if not np.allclose(A, other, atol=1e-12):
        out.fail("dense-sparse-agree", f"{spec} n={n}", **feat)
    names = list(c.get_coding_column_names(levels, reduced_rank=True))
    if names != RC.column_names(spec, levels):
        out.fail("column-names", f"{spec} n={n}: {names} vs {RC.column_names(spec, levels)}", **feat)
    if not sparse:
        df = c.get_coding_matrix(levels, reduced_rank=True, sparse=False)
        if list(df.columns) != names or list(df.index) != levels:
            out.fail("coding-matrix-labels", f"{spec} n={n}: {list(df.columns)} / {list(df.index)}", **feat)
    full_names = list(c.get_coding_column_names(levels, reduced_rank=False))
    if full_names != levels:
        out.fail("full-column-names", f"{spec}: {full_names}", **feat)
    if n >= 1:
        drop = c.get_drop_field(levels, reduced_rank=False)
        if drop not in full_names:
            out.fail("drop-field-in-full-names", f"{spec} n={n}: drop field {drop!r}", **feat)
        if spec["kind"] in ("treatment", "SAS"):
            want = levels[RC.base_index(spec, n, levels)]
            if drop != want:
                out.fail("drop-field-is-reference", f"{spec} n={n}: {drop!r} != {want!r}", **feat)
        if c.get_drop_field(levels, reduced_rank=True) is not None:
            out.fail("drop-field-none-when-reduced", f"{spec}", **feat)
        if c.get_spans_intercept(levels, reduced_rank=True) or not c.get_spans_intercept(levels, reduced_rank=False):
            out.fail("spans-intercept-flags", f"{spec} n={n}", **feat)
    if spec["kind"] == "treatment":
        # the patsy-compatible constructor builds the same contrast
        from formulaic.transforms.patsy_compat import Treatment

        t = Treatment(reference=spec["base"]) if "base" in spec else Treatment()
        At = dense(t.get_coding_matrix(levels, reduced_rank=True, sparse=sparse)).reshape(n, -1)
        if At.shape != R.shape or not np.allclose(At, R, atol=tol) or list(t.get_coding_column_names(levels, reduced_rank=True)) != RC.column_names(spec, levels):
            out.fail("patsy-treatment-shim", f"Treatment(reference={spec.get('base')!r}) on {levels}:\n{At}\nexpected\n{R}", **feat)
    # the same contrast instance applied to a second level list of the same length (rotated): results must
    # depend on the levels given, not on an earlier call
    if n >= 2:
        rot = levels[1:] + levels[:1]
        A2 = dense(c.get_coding_matrix(rot, reduced_rank=True, sparse=sparse)).reshape(n, -1)
        R2 = RC.coding(spec, n, rot)
        if A2.shape != R2.shape or not np.allclose(A2, R2, atol=tol):
            out.fail("instance-reuse-second-level-list", f"{spec} n={n}: after coding {levels}, coding for {rot} is\n{A2}\nexpected\n{R2}", **feat)
        if list(c.get_coding_column_names(rot, reduced_rank=True)) != RC.column_names(spec, rot):
            out.fail("instance-reuse-second-level-list", f"{spec} n={n}: names for {rot}", **feat)
        K2 = dense(c.get_coefficient_matrix(rot, reduced_rank=True, sparse=sparse)).reshape(n, n)
        if np.linalg.matrix_rank(np.hstack([np.ones((n, 1)), R2])) == n and not np.allclose(K2 @ np.hstack([np.ones((n, 1)), R2]), np.eye(n), atol=1e-8):
            out.fail("instance-reuse-second-level-list", f"{spec} n={n}: coefficient matrix for {rot}", **feat)
    # ... and to level lists of another length (one fewer, then one more)
    if "scores" not in spec:
        for n3 in (n - 1, n + 1):
            lv3 = labels(n3, lk)
            if n3 < 1 or ("base" in spec and spec["base"] not in lv3):
                continue
            A3 = dense(c.get_coding_matrix(lv3, reduced_rank=True, sparse=sparse)).reshape(n3, -1)
            R3 = RC.coding(spec, n3, lv3)
            if A3.shape != R3.shape or not np.allclose(A3, R3, atol=tol):
                out.fail("instance-reuse-other-level-count", f"{spec}: after n={n}, coding for {lv3} is\n{A3}\nexpected\n{R3}", **feat)
    st_ = ContrastsState(c, levels)
    if not np.allclose(dense(st_.get_coding_matrix(True, sparse)).reshape(n, -1), A, atol=0):
        out.fail("state-coding-matrix", f"{spec} n={n}", **feat)
    return out


def grid(nmax):
    def gen():
        for n in range(1, nmax + 1):
            for lk in ("str", "int", "mixed", "zero"):
                for spec in specs_for(n, labels(n, lk)):
                    if spec["kind"] in ("helmert", "diff", "sum") and lk != "str" and n > 6:
                        continue  # label kind is irrelevant to these matrices; keep the grid small
                    for sparse in (False, True):
                        yield {"spec": spec, "n": n, "labels": lk, "sparse": sparse}

    return gen


# --------------------------------------------------------------------- encode


def indicator(data, levels):
    M = np.zeros((len(data), len(levels)))
    for i, v in enumerate(data):
        if v is not None and v in levels:
            M[i, levels.index(v)] = 1.0
    return M


def check_encode(case) -> Outcome:
    import pandas
    from ..libio import model_matrix
    from formulaic.errors import DataMismatchWarning
    from formulaic.transforms.contrasts import encode_contrasts

    out = Outcome()
    spec, lk, n = case["spec"], case["labels"], case["n"]
    pool = labels(n + 1, lk)  # one extra label that is never a declared level
    declared = pool[:n]
    data = [None if i is None else pool[i] for i in case["data"]]
    levels_arg = None if case["levels"] is None else [declared[i] for i in case["levels"]]
    reduced, output = case["reduced"], case["output"]
    spec = dict(spec)
    if spec.get("base") is not None:
        spec["base"] = pool[spec["base"]]
    observed = sorted({v for v in data if v is not None})
    used = list(levels_arg) if levels_arg is not None else observed
    if spec["kind"] == "poly" and spec.get("scores"):
        spec["scores"] = spec["scores"][: len(used)]
        if len(spec["scores"]) != len(used):
            spec.pop("scores")
    if spec.get("base") is not None and spec["base"] not in used:
        spec.pop("base")
    nl = len(used)
    out.nontrivial = nl >= 2
    out.label(f"kind:{spec['kind']}", "out:" + output, "reduced" if reduced else "full")
    has_extra = any(v is not None and v not in used for v in data)
    has_null = any(v is None for v in data)
    if has_extra:
        out.label("out-of-level-values")
    if has_null:
        out.label("nulls")
    if len(used) < len(set(declared)) or any(l not in observed for l in used):
        out.label("absent-levels")
    c = RC.make(spec)
    feat = dict(kind=spec["kind"], output=output, reduced=reduced)
    I = indicator(data, used)
    expected = I @ RC.coding(spec, nl, used) if reduced else I
    exp_names = RC.column_names(spec, used) if reduced else list(used)
    series = pandas.Series(data, dtype=object)
    if case.get("as_cat") is not None and levels_arg is not None and len(used) >= 2:
        # the data arrive dictionary-encoded, with the same categories declared in another order (plus anything else observed)
        k_ = 1 + case["as_cat"] % (len(used) - 1)
        cats = list(used[k_:]) + list(used[:k_]) + sorted({v for v in data if v is not None and v not in used}, key=str)
        series = pandas.Series(pandas.Categorical(data, categories=cats))
        out.label("categorical-input-other-order")
    with warnings.catch_warnings(record=True) as w:
        warnings.simplefilter("always")
        enc = encode_contrasts(series, c, levels=levels_arg, reduced_rank=reduced, output=output)
    warned = any(issubclass(x.category, DataMismatchWarning) for x in w)
    if has_extra and levels_arg is not None and not warned:
        out.fail("out-of-level-warning", f"{case}: no DataMismatchWarning", **feat)
    got = dense(enc).reshape(len(data), -1)
    if got.shape != expected.shape or not np.allclose(got, expected, atol=1e-8):
        out.fail("encoding-equals-indicator-times-coding", f"{spec} data={data} levels={levels_arg} reduced={reduced} output={output}\n got {got}\n exp {expected}", **feat)
    names = list(enc.__formulaic_metadata__.column_names or ())
    if names != exp_names:
        out.fail("encoded-column-names", f"{spec} data={data} levels={levels_arg}: {names} vs {exp_names}", **feat)
    if output == "pandas" and hasattr(enc, "columns") and list(enc.columns) != exp_names:
        out.fail("encoded-frame-columns", f"{list(enc.columns)} vs {exp_names}", **feat)

    # through the formula interface (no nulls / extras here: those belong to C06 / C09)
    if not has_null and not has_extra and data:
        cexpr = RC.expr(spec)
        sp = case.get("spelling", 0)
        if sp and spec["kind"] != "SAS":
            # the patsy-compatible spellings of the same built-in contrasts
            inner = cexpr[cexpr.index("(") + 1 : -1]
            if spec["kind"] == "treatment":
                b = spec.get("base")
                cexpr = "Treatment()" if b is None else (f"Treatment(reference={b!r})" if sp == 1 else f"Treatment({b!r})")
            else:
                cexpr = {"sum": "Sum", "helmert": "Helmert", "diff": "Diff", "poly": "Poly"}[spec["kind"]] + f"({inner})"
            out.label("patsy-spelling")
        lv = "" if levels_arg is None else f", levels={levels_arg!r}"
        fexpr = f"C(x, {cexpr}{lv})"
        formula = fexpr if reduced else f"{fexpr} - 1"
        df = pandas.DataFrame({"x": pandas.Series(data, dtype=object)})
        mm = model_matrix(formula, df, output=output)
        got = dense(mm).reshape(len(data), -1)
        if reduced:
            exp2 = np.hstack([np.ones((len(data), 1)), expected])
            pre = RC.PREFIX[spec["kind"]]
            names2 = ["Intercept"] + [f"{fexpr}[{pre}{l}]" for l in exp_names]
        else:
            exp2 = expected
            names2 = [f"{fexpr}[{l}]" for l in exp_names]
        if got.shape != exp2.shape or not np.allclose(got, exp2, atol=1e-8):
            out.fail("formula-encoding-values", f"{formula!r} data={data}\n got {got}\n exp {exp2}", **feat)
        if list(mm.model_spec.column_names) != names2:
            out.fail("formula-encoding-names", f"{formula!r}: {list(mm.model_spec.column_names)} vs {names2}", **feat)
        if reduced:
            # the same factor needed with its full coding (left-hand side: no intercept) and then with the reduced one
            mm2 = model_matrix(f"{fexpr} ~ {fexpr}", df, output=output)
            gl, gr = dense(mm2.lhs).reshape(len(data), -1), dense(mm2.rhs).reshape(len(data), -1)
            if gl.shape != I.shape or not np.allclose(gl, I, atol=1e-8) or list(mm2.lhs.model_spec.column_names) != [f"{fexpr}[{l}]" for l in used]:
                out.fail("formula-two-sided-full", f"'{fexpr} ~ {fexpr}' data={data}: lhs {list(mm2.lhs.model_spec.column_names)}\n{gl}\nexpected indicators\n{I}", **feat)
            if gr.shape != exp2.shape or not np.allclose(gr, exp2, atol=1e-8) or list(mm2.rhs.model_spec.column_names) != names2:
                out.fail("formula-two-sided-reduced", f"'{fexpr} ~ {fexpr}' data={data}: rhs {list(mm2.rhs.model_spec.column_names)}\n{gr}\nexpected\n{exp2}", **feat)
    return out


def gen_encode(nmax):
    @st.composite
    def strat(draw):
        n = draw(st.integers(1, nmax))
        lk = draw(st.sampled_from(["str", "int", "mixed", "zero"]))
        kind = draw(st.sampled_from(["treatment", "SAS", "sum", "helmert", "diff", "poly"]))
        spec = {"kind": kind}
        if kind in ("treatment", "SAS") and draw(st.booleans()):
            spec["base"] = draw(st.integers(0, n - 1))
            if lk == "zero" and n >= 2 and draw(st.booleans()):
                spec["base"] = 1  # the falsy label 0, not in first position
        if kind == "helmert":
            spec["reverse"] = draw(st.booleans())
            spec["scale"] = draw(st.booleans())
        if kind == "diff":
            spec["backward"] = draw(st.booleans())
        if kind == "poly" and draw(st.booleans()):
            sc = draw(st.lists(st.integers(1, 5), min_size=n, max_size=n))
            spec["scores"] = [sum(sc[: i + 1]) for i in range(n)]
            if draw(st.booleans()):
                spec["scores"] = list(draw(st.permutations(spec["scores"])))  # distinct, any order
        clean = draw(st.booleans())  # no nulls / out-of-level values: the formula interface is exercised too
        el = st.integers(0, n - 1) if clean else st.one_of(st.integers(0, n - 1), st.integers(0, n - 1), st.integers(0, n), st.none())
        data = draw(st.lists(el, min_size=1, max_size=12))
        if all(d is None for d in data):
            data[0] = 0
        lev = draw(st.one_of(st.none(), st.permutations(list(range(n))), st.permutations(list(range(n))).map(lambda p: p[: max(1, len(p) - 1)])))
        return {
            "spec": spec, "labels": lk, "n": n, "data": data, "levels": None if lev is None else list(lev),
            "reduced": draw(st.booleans()), "output": draw(st.sampled_from(["pandas", "numpy", "sparse"])),
            "spelling": draw(st.sampled_from([0, 0, 1, 2])),
            "as_cat": draw(st.one_of(st.none(), st.none(), st.integers(0, 6))),
        }

    return strat()


BUDGET_S = {"quick": 60, "thorough": 1200}
THOROUGH_SHARDS = 8


def campaigns(tier, shard=0, nshards=1):
    nmax = 8 if tier == "quick" else 12
    out = []
    if shard == 0:
        out.append(Campaign("grid", None, check_cell, 0, enumerate=grid(nmax), exhaustive=True))
    out.append(Campaign("encode", gen_encode(8 if tier == "quick" else 10), check_encode, 3000 if tier == "quick" else 20000))
    return out


def extra_phase(tier, seed, stats):
    nmax = 8 if tier == "quick" else 12
    return {"exhaustive": True, "exhaustive_scope": f"grid campaign only: all cells n=1..{nmax} (cell count = per_campaign.grid.evaluations)"}
