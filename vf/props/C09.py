"""
C09 - reusing a spec on incompatible data fails loudly and never reshapes columns.
"""

from __future__ import annotations

import copy
import warnings

import numpy as np
from hypothesis import strategies as st

from ..core import Campaign, Outcome
from ..gen import frames as F
from ..ref import encode as E
from .C02 import dense, read_structure

RULE = (
    "(training frame, formula) as in C02 with >=1 categorical and >=1 numeric variable, alone and in interactions; the "
    "spec of the training matrix is applied to a follow-up frame built from resampled training rows with one mutation: "
    "a categorical column turned into numbers, a numeric column turned into text, levels removed (incl. single-level "
    "follow-ups and independently re-declared category dtypes that lack or reorder fit-time levels), unseen levels "
    "added (observed in the data, or only declared by a categorical dtype), or none. Oracle: kind change of a used "
    "variable => FormulaicError (FactorEncodingError) and no matrix; otherwise identical column names and order, "
    "values == R-encode with the *training* levels (lost levels give all-zero columns, rows holding an unseen level give "
    "all-zero indicators, all other rows unchanged) and a DataMismatchWarning iff an unseen level is observed. "
    "Non-trivial = the mutation touches a variable the formula uses; distinct by (formula, mutation, frames)."
)
ASSUMPTIONS = [
    "pandas materializer and narwhals on the same pandas frames; outputs pandas/numpy/sparse; values compared at 1e-9",
    "an unseen level that is only declared (never observed) needs no warning",
]


def levels_map(fc, fr):
    out = {}
    for t in fc["terms"]:
        for f in t:
            if f["k"] in ("cat", "C") and not f.get("levels"):
                out[F.factor_src(f)[1]] = E.levels_of(fr, f["col"])
    return out


def used_cols(fc):
    cols = set()
    for t in fc["terms"]:
        for f in t:
            if "col" in f:
                cols.add(f["col"])
            cols.update(f.get("cols", []))
    return cols


def cat_role(fc, col):
    """Is the column used as a categorical factor / as a numeric one?"""
    roles = set()
    for t in fc["terms"]:
        for f in t:
            if f.get("col") == col:
                roles.add({"cat": "cat", "C": "C", "hashed": "C", "num": "num"}.get(f["k"], "expr"))
            if col in f.get("cols", []):
                roles.add("expr")
    return roles


def mutate(fr, mut):
    fr = copy.deepcopy(fr)
    kind, col = mut["kind"], mut["col"]
    c = fr["cols"][col]
    n = fr["n"]
    if kind == "cat-to-num":
        fr["cols"][col] = {"dtype": "float64", "values": [100.5 + (i % 3) for i in range(n)]}
    elif kind == "num-to-text":
        fr["cols"][col] = {"dtype": "object", "values": [["u", "v", "w"][i % 3] for i in range(n)]}
    elif kind == "lose-levels":
        observed = [v for v in c["values"] if v is not None]
        keep = observed[mut["pick"] % len(observed)] if observed else None
        lv = E.levels_of(fr, col)
        if not lv:
            return fr  # the resampled rows hold no level at all
        other = lv[(lv.index(keep) + 1) % len(lv)] if keep in lv and len(lv) > 1 else keep
        if mut.get("single"):
            c["values"] = [keep for _ in c["values"]]
        else:
            lost = lv[mut["pick"] % len(lv)]
            repl = next((l for l in lv if l != lost), lost)
            c["values"] = [repl if v == lost else v for v in c["values"]]
        if c["dtype"] == "category" and mut.get("redeclare"):
            # an independently built categorical: only the observed levels, sorted
            c["categories"] = sorted({v for v in c["values"] if v is not None}, key=str)
    elif kind == "unseen-observed":
        # the new level may be a falsy label (0 / empty string)
        # ... or a value that only differs from a known level beyond what the levels' own dtype can hold: a longer
        # string starting with a known level, a fractional number next to integer levels
        lv_ = E.levels_of(fr, col)
        if col == "G":
            new = [99, 0, (float(lv_[0]) + 0.5 if lv_ else 2.5), 1000003][mut["pick"] % 4]
        else:
            new = ["NEW", "", (str(lv_[0]) + "zz" if lv_ else "azz"), "N"][mut["pick"] % 4]
        pos = {p % n for p in mut["rows"]} or {0}
        c["values"] = [new if i in pos else v for i, v in enumerate(c["values"])]
        if isinstance(new, float) and c["dtype"] in ("int64", "Int64"):
            c["dtype"] = "float64"  # (an integer dtype would truncate the fractional value into a known level)
        if c["dtype"] == "category":
            c["categories"] = list(c["categories"]) + [new]
    elif kind == "unseen-declared":
        if c["dtype"] == "category":
            c["categories"] = list(c["categories"]) + [99 if col == "G" else "NEW"]
    return fr


ODD_CAT = "s:t"  # a categorical column whose (quoted) name contains the interaction operator


def rename_col(obj, old, new):
    """Rename a data column in a frame case / formula case / mutation (deep copy)."""
    obj = copy.deepcopy(obj)

    def walk(o):
        if isinstance(o, dict):
            if "cols" in o and isinstance(o["cols"], dict) and old in o["cols"]:
                o["cols"] = {(new if k == old else k): v for k, v in o["cols"].items()}
            if o.get("col") == old:
                o["col"] = new
            if isinstance(o.get("cols"), list):
                o["cols"] = [new if c == old else c for c in o["cols"]]
            for v in o.values():
                walk(v)
        elif isinstance(o, list):
            for v in o:
                walk(v)

    walk(obj)
    return obj


def check_case(case) -> Outcome:
    from formulaic.errors import DataMismatchWarning, FactorEncodingError, FormulaicError
    from ..libio import model_matrix

    out = Outcome()
    if case.get("rename"):
        case = rename_col({k: v for k, v in case.items() if k != "rename"}, case["rename"], ODD_CAT)
        out.label("quoted-colon-name")
    tr, fc, efr, output, mut = case["frame"], case["formula"], case["efr"], case["output"], case["mutation"]
    s = F.formula_string(fc)
    df = F.build(tr)
    na = case.get("na_action", "drop")
    mkw = {"materializer": "narwhals"} if case.get("mat") == "narwhals" else {}
    if mkw:
        out.label("narwhals-materializer")
    # a two-sided formula: the recorded spec has several parts (the left-hand side comes first) and is re-used as a whole
    lhs_col = None
    if case.get("twosided"):
        lhs_col = "z" if mut["col"] != "z" else "y"
        out.label("two-sided")
    extra = (lhs_col,) if lhs_col else ()
    mm = model_matrix(f"{lhs_col} ~ {s}" if lhs_col else s, df, ensure_full_rank=efr, output=output, na_action=na, **mkw)
    spec_all = mm.model_spec
    spec = spec_all.rhs if lhs_col else spec_all
    out.label("na:" + na)
    # levels are learnt from the rows that survive the missing-data policy of the training build
    tr_levels = tr
    if na == "drop":
        from .C06 import null_rows as _nr

        gone_tr = _nr(fc, tr, extra)
        if gone_tr:
            tr_levels = F.take_rows(tr, [i for i in range(tr["n"]) if i not in gone_tr])
    if case.get("subset") and len(fc["terms"]) >= 2 and not lhs_col:
        # keep only some of the terms (Term objects of the fitted spec), e.g. an interaction without its margins
        lib_terms = [t for t in spec.formula if any(f.eval_method.value != "literal" for f in t.factors)]
        pick = sorted({i % len(lib_terms) for i in case["subset"]})
        keep = [lib_terms[i] for i in pick]
        start = 1 if fc["intercept"] else 0
        spec = spec_all = spec.subset(keep)
        fc = {"intercept": False, "terms": [fc["terms"][i] for i in pick]}
        out.label("subset")
    names = list(spec.column_names)
    rows = [r % tr["n"] for r in case["rows"]] or [0]
    fol0 = F.take_rows(tr, rows)
    fol0["index"] = None
    col = mut["col"]
    roles = cat_role(fc, col)
    used = col in used_cols(fc)
    fol = mutate(fol0, mut)
    kind = mut["kind"]
    out.label("mutation:" + kind, "out:" + output, "efr" if efr else "no-efr")
    out.nontrivial = used and kind != "none"
    feat = dict(mutation=kind, output=output, efr=efr, role=",".join(sorted(roles)))
    dff = F.build(fol)
    if case.get("derived") and not lhs_col and not case.get("subset") and not case.get("rename"):
        return derived_spec(out, case, spec, s, df, dff, fc, fol, tr_levels, roles, feat)
    with warnings.catch_warnings(record=True) as w:
        warnings.simplefilter("always")
        try:
            res = spec_all.get_model_matrix(dff, context={})
            res = res.rhs if lhs_col else res
            err = None
        except Exception as e:  # judged below
            res, err = None, e
    warned = any(issubclass(x.category, DataMismatchWarning) for x in w)
    kind_change = (kind == "cat-to-num" and "cat" in roles) or (kind == "num-to-text" and "num" in roles)
    if kind == "num-to-text" and "expr" in roles and not kind_change:
        # the column only feeds python expressions: whatever the expression does with text is the user's code;
        # it must not silently produce a matrix of the old shape with non-numeric cells
        out.rejected = err is not None
        out.label("text-through-python-expression")
        # (what a user expression such as np.stack([z, x]) makes of text is not the library's kind check: not asserted)
        return out
    if kind == "cat-to-num" and "cat" not in roles and "C" in roles:
        kind = "unseen-observed"  # C() coerces anything to categorical: the numbers are simply unseen levels
    if kind_change:
        out.rejected = True
        if err is None:
            out.fail("kind-change-must-raise", f"{s!r} trained with {col}:{tr['cols'][col]['dtype']}, follow-up {col} mutated by {kind}: returned a matrix with columns {list(res.model_spec.column_names)}", **feat)
        elif not isinstance(err, FactorEncodingError) and "expr" not in roles:
            # (when the column also feeds a python expression, that expression may fail first, in its own way)
            out.fail("kind-change-error-type", f"{s!r} {kind}: raised {type(err).__name__}: {str(err)[:150]}", **feat)
        return out
    if err is not None:
        out.fail("compatible-follow-up-rejected", f"{s!r} {kind} on {col} (roles {sorted(roles)}): {type(err).__name__}: {str(err)[:200]}", **feat)
        return out
    got_names = list(res.model_spec.column_names)
    if got_names != names or (output == "pandas" and list(res.columns) != names):
        out.fail("columns-reshaped", f"{s!r} {kind} on {col}: {got_names} vs training {names}", **feat)
        return out
    if na == "drop":
        # rows of the follow-up holding a null in a used column are dropped (C06 owns the exact policy)
        from .C06 import null_rows

        gone = null_rows(fc, fol, extra)
        if gone:
            out.label("follow-up-null-rows-dropped")
            keep_rows = [i for i in range(fol["n"]) if i not in gone]
            fol = F.take_rows(fol, keep_rows)
            rows = [rows[i] for i in keep_rows]
    if dense(res).size != len(rows) * len(names):
        out.fail("row-count", f"{s!r} {kind} on {col}: {dense(res).shape} for {len(rows)} expected rows x {len(names)} columns", **feat)
        return out
    M = dense(res).reshape(len(rows), len(names)) if names else np.zeros((len(rows), 0))
    # expected with the training levels
    lv = levels_map(fc, tr_levels)
    if efr:
        st_ = read_structure(spec)
        en, eM = E.expected_from_structure(fc, fol, [(a, b, c) for a, b, c, _ in st_], levels_override=lv)
    else:
        en, eM, _ = E.expected_full(fc, fol, levels_override=lv)
    if en != names:
        out.fail("harness-names", f"{s!r}: reference names {en} vs training names {names}", **feat)
        return out
    if not np.allclose(M, eM, rtol=1e-9, atol=1e-9, equal_nan=True):
        bad = [names[j] for j in range(len(names)) if not np.allclose(M[:, j], eM[:, j], rtol=1e-9, atol=1e-9, equal_nan=True)]
        out.fail("values-with-training-levels", f"{s!r} {kind} on {col} (follow-up {fol['cols'][col]}): columns {bad}\n got {M.tolist()}\n exp {eM.tolist()}", **feat)
    # an unseen level is "observed" if some surviving follow-up row holds a value outside the levels in force for a
    # categorical factor (explicit levels=[...] or the levels learnt from the surviving training rows)
    unseen_observed = False
    for t_ in fc["terms"]:
        for f_ in t_:
            if f_["k"] in ("cat", "C"):
                lv_f = list(f_["levels"]) if f_.get("levels") else E.levels_of(tr_levels, f_["col"])
                if any(v is not None and v not in lv_f for v in fol["cols"][f_["col"]]["values"]):
                    unseen_observed = True
    if unseen_observed and not warned:
        out.fail("unseen-level-warning", f"{s!r}: follow-up {col} contains an unseen level but no DataMismatchWarning was emitted", **feat)
    kept_null_level = na == "ignore" and any(v is None for c_ in used_cols(fc) if c_ in fol["cols"] and c_ not in F.NUM_COLS for v in fol["cols"][c_]["values"])
    if kept_null_level:
        # a missing value kept under "ignore" is itself reported as a category outside the levels: not asserted either way
        out.label("kept-null-in-categorical")
    if warned and not unseen_observed and not kept_null_level:
        out.fail("spurious-mismatch-warning", f"{s!r} {kind} on {col}: DataMismatchWarning although no unseen level is observed: {[str(x.message)[:100] for x in w]}", **feat)
    # a second application behaves identically (warning included)
    if unseen_observed:
        with warnings.catch_warnings(record=True) as w2:
            warnings.simplefilter("always")
            res2 = spec_all.get_model_matrix(dff, context={})
            res2 = res2.rhs if lhs_col else res2
        if not any(issubclass(x.category, DataMismatchWarning) for x in w2):
            out.fail("unseen-level-warning", f"{s!r}: second application of the same spec to the same follow-up data was silent", **feat, second=True)
        if list(res2.model_spec.column_names) != names:
            out.fail("columns-reshaped", f"{s!r}: second application", **feat)
    return out


def derived_spec(out, case, spec, s, df, dff, fc, fol, tr_levels, roles, feat):
    """The gradient of a fitted spec (`spec.differentiate('x')`) is still a recorded spec: on follow-up data it keeps the
    columns it has on the training data, announces unseen levels and refuses a column whose kind changed (values of
    derivatives are C20's business: not compared here)."""
    from formulaic.errors import DataMismatchWarning, FormulaicError

    mut = case["mutation"]
    kind, col = mut["kind"], mut["col"]
    try:
        dspec = spec.differentiate("x")
        ref = dspec.get_model_matrix(df, context={})
        names = list(ref.model_spec.column_names)
        required = set(dspec.formula.required_variables)
    except Exception:
        out.label("excluded:not-differentiable")
        out.nontrivial = False
        return out
    out.label("derived:differentiate")
    feat = dict(feat, derived="differentiate")
    still_used = col in required
    out.nontrivial = out.nontrivial and still_used
    with warnings.catch_warnings(record=True) as w:
        warnings.simplefilter("always")
        try:
            res, err = dspec.get_model_matrix(dff, context={}), None
        except Exception as e:
            res, err = None, e
    warned = any(issubclass(x.category, DataMismatchWarning) for x in w)
    if kind in ("cat-to-num", "num-to-text"):
        # (asserted only when every appearance of the column has the kind that changes)
        if still_used and ((kind == "cat-to-num" and roles == {"cat"}) or (kind == "num-to-text" and roles == {"num"})):
            out.rejected = True
            if err is None:
                out.fail("kind-change-must-raise", f"d/dx of the spec of {s!r}: follow-up {col} mutated by {kind}: returned a matrix with columns {list(res.model_spec.column_names)}", **feat)
            elif not isinstance(err, FormulaicError):
                out.fail("kind-change-error-type", f"d/dx of the spec of {s!r} {kind}: raised {type(err).__name__}: {str(err)[:150]}", **feat)
        return out
    if err is not None:
        out.fail("compatible-follow-up-rejected", f"d/dx of the spec of {s!r} {kind} on {col}: {type(err).__name__}: {str(err)[:200]}", **feat)
        return out
    got = list(res.model_spec.column_names)
    if got != names:
        out.fail("columns-reshaped", f"d/dx of the spec of {s!r} {kind} on {col}: {got} on the follow-up vs {names} on the training data", **feat)
    unseen = False
    for t_ in fc["terms"]:
        for f_ in t_:
            if f_["k"] in ("cat", "C") and f_["col"] in required and any(g_["k"] == "num" and g_.get("col") == "x" for g_ in t_):
                lv_f = list(f_["levels"]) if f_.get("levels") else E.levels_of(tr_levels, f_["col"])
                if any(v is not None and v not in lv_f for v in fol["cols"][f_["col"]]["values"]):
                    unseen = True
    if unseen and not warned and case.get("na_action", "drop") == "ignore":
        # (under "drop" the row holding the unseen level may itself be dropped: only asserted when no row is removed)
        out.fail("unseen-level-warning", f"d/dx of the spec of {s!r}: follow-up {col} contains an unseen level but no DataMismatchWarning was emitted", **feat)
    return out


def gen(max_rows=10):
    @st.composite
    def strat(draw):
        fr = draw(F.frame(min_rows=2, max_rows=max_rows, nulls=draw(st.booleans())))
        fc = draw(F.formulas(max_terms=3, max_factors=3, polyraw=False))
        cols_used = sorted(used_cols(fc)) or ["x"]
        cat_used = [c for c in cols_used if c in F.CAT_COLS]
        col = draw(st.sampled_from(cols_used + cols_used + cat_used * 3 + ["A", "x"]))
        is_cat = col in F.CAT_COLS
        kinds = ["cat-to-num", "cat-to-num", "lose-levels", "lose-levels", "unseen-observed", "unseen-observed", "unseen-declared", "none"] if is_cat else ["num-to-text", "num-to-text", "none"]
        mut = {"kind": draw(st.sampled_from(kinds)), "col": col, "pick": draw(st.integers(0, 5)), "single": draw(st.booleans()),
               "redeclare": draw(st.booleans()), "rows": draw(st.lists(st.integers(0, 20), min_size=1, max_size=3))}
        return {
            "frame": fr, "formula": fc, "efr": draw(st.booleans()), "output": draw(st.sampled_from(["pandas", "numpy", "sparse"])),
            "mutation": mut, "rows": draw(st.lists(st.integers(0, 30), min_size=1, max_size=8)),
            "na_action": draw(st.sampled_from(["drop", "drop", "ignore"])),
            "subset": draw(st.one_of(st.none(), st.none(), st.lists(st.integers(0, 5), min_size=1, max_size=2))),
            # (the odd name goes to the mutated column more often than to another one)
            "rename": draw(st.sampled_from([None, None, "A", "B"] + ([col, col] if col in ("A", "B") else []))),
            "mat": draw(st.sampled_from(["pandas", "pandas", "narwhals"])),
            "twosided": draw(st.sampled_from([False, False, True])),
            "derived": draw(st.sampled_from([False, False, True])),
        }

    return strat()


BUDGET_S = {"quick": 110, "thorough": 1500}


def campaigns(tier, shard=0, nshards=1):
    return [Campaign("reuse", gen(10 if tier == "quick" else 18), check_case, 2000 if tier == "quick" else 12000)]
