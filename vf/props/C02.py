"""
C02 - every model-matrix column holds exactly the product its name denotes.
"""

from __future__ import annotations

import numpy as np
from hypothesis import strategies as st

from ..core import Campaign, Outcome
from ..gen import frames as F
from ..ref import encode as E

RULE = (
    "G-frame data (1-12 rows; float/int numeric columns, object/str/category text columns with declared order and "
    "unobserved categories, int categorical via C(); 1-4 levels) x data-side formulas (1-4 terms of 1-3 factors from "
    "numeric, categorical, C(col[, contrast]), python expressions, raw polynomials, numeric literal scalings; intercept "
    "on/off) x ensure_full_rank x {pandas, numpy, sparse}. Oracle: with rank reduction off the whole matrix (names and "
    "values) is predicted from scratch by R-encode; with it on (i) prediction from the reduced/full flags recorded in "
    "model_spec.structure and (ii) label-based: every emitted label is split on ':' and looked up in R-encode's "
    "dictionary of all full and reduced factor columns. Non-trivial = a term with >=2 non-literal factors, or a literal "
    "scale != 1, or a non-treatment contrast; distinct by (formula, frame, options)."
)
ASSUMPTIONS = [
    "values compared with rtol 1e-9 / atol 1e-9 (library multiplies factors in a different association order)",
    "column dtype is not asserted here (C08)",
    "no null data here (C06) and only the pandas materializer (C05 ties the others to it)",
]


def dense(m):
    if hasattr(m, "toarray"):
        return np.asarray(m.toarray(), dtype=float)
    if hasattr(m, "values") and not isinstance(m, np.ndarray):
        return np.asarray(m.values, dtype=float)
    return np.asarray(m, dtype=float)


def nontrivial(fc):
    for t in fc["terms"]:
        if F.term_degree(t) >= 2:
            return True
        for f in t:
            if f["k"] == "lit" and float(f["v"]) != 1:
                return True
            if f["k"] == "C" and f.get("contrast") and f["contrast"]["kind"] not in ("treatment",):
                return True
    return False


def read_structure(spec):
    out = []
    for row in spec.structure:
        term_factors = [f.expr for f in row.term.factors]
        scoped = []
        scale = 1.0
        for stt in row.scoped_terms:
            scoped.append([(sf.factor.expr, bool(sf.reduced)) for sf in stt.factors])
            scale = float(stt.scale)
        out.append((term_factors, scoped, scale, list(row.columns)))
    return out


NARROW = {"int32": ("int32", 20000, False), "int16": ("int16", 100, False), "uint8": ("uint8", 20, True), "int64": ("int64", 2**31, False)}


def narrow_ints(fr, fc, kind, out):
    """Integer columns of another width whose values fit the dtype while products of two of them do not (the product a
    label denotes is that of the numbers, not of their machine representation). Only columns that are used as plain
    numeric factors: inside a Python expression the arithmetic is the user's own."""
    import copy

    plain, other = set(), set()
    for t in fc["terms"]:
        for f in t:
            (plain if f["k"] == "num" else other).update([f["col"]] if "col" in f else f.get("cols", []))
    dtype, mult, nonneg = NARROW[kind]
    fr = copy.deepcopy(fr)
    done = False
    for c in sorted(plain - other):
        col = fr["cols"].get(c)
        if col and col["dtype"] in ("int64", "float64") and None not in col["values"]:
            ints = col["values"] if col["dtype"] == "int64" else [F.NUM_VALUES.index(v) - 3 for v in col["values"]]
            col["dtype"] = dtype
            col["values"] = [(abs(v) if nonneg else v) * mult for v in ints]
            done = True
    if done:
        out.label("integer-width:" + kind)
    return fr


def check_case(case) -> Outcome:
    from ..libio import model_matrix

    out = Outcome()
    fr, fc, efr, output = case["frame"], case["formula"], case["efr"], case["output"]
    if case.get("narrow"):
        fr = narrow_ints(fr, fc, case["narrow"], out)
    df = F.build(fr)
    s = F.formula_string(fc)
    out.nontrivial = nontrivial(fc)
    out.label("efr" if efr else "no-efr", "out:" + output)
    feat = dict(efr=efr, output=output)
    if case.get("prime"):
        # a preceding call in the same process on data where every column's kind is swapped
        out.label("primed")
        try:
            import pandas as pd

            sw = {c: ([float(i % 3) for i in range(5)] if v["dtype"] in ("object", "str", "category") or c == "G" else [["p", "q", "r"][i % 3] for i in range(5)]) for c, v in fr["cols"].items()}
            model_matrix(s, pd.DataFrame(sw), ensure_full_rank=efr, output=output)
        except Exception:
            pass
    if case.get("lhs"):
        # the same numeric column, scaled by a literal, as the left-hand side of a two-sided formula
        out.label("two-sided")
        both = model_matrix(f"{case['lhs']}:x ~ {s}", df, ensure_full_rank=efr, output=output)
        L = dense(both.lhs).reshape(fr["n"], -1)
        expL = float(case["lhs"]) * E.numeric(fr, "x")
        if list(both.lhs.model_spec.column_names) != ["x"] or L.shape != (fr["n"], 1) or not np.allclose(L[:, 0], expL, rtol=1e-9, atol=1e-9, equal_nan=True):
            out.fail("lhs-scaled-column", f"{case['lhs']}:x ~ {s!r}: lhs {list(both.lhs.model_spec.column_names)} = {L.tolist()} expected {expL.tolist()}", efr=efr, output=output)
        mm = both.rhs
    else:
        mm = model_matrix(s, df, ensure_full_rank=efr, output=output)
    names = list(mm.model_spec.column_names)
    got = dense(mm).reshape(fr["n"], -1)
    if output == "pandas" and list(mm.columns) != names:
        out.fail("pandas-columns-vs-spec", f"{s!r}: {list(mm.columns)} vs {names}", **feat)
    if got.shape[1] != len(names):
        out.fail("column-count", f"{s!r}: {got.shape[1]} columns, {len(names)} names", **feat)
        return out
    # the spec attached to the matrix names the same columns and reproduces the same numbers on the same data
    again = mm.model_spec.get_model_matrix(df, context={})
    A_ = dense(again).reshape(fr["n"], -1)
    if list(again.model_spec.column_names) != names or A_.shape != got.shape or not np.allclose(A_, got, rtol=1e-12, atol=1e-12, equal_nan=True):
        out.fail("spec-reproduces-matrix", f"{s!r}: the matrix rebuilt from its own model spec differs: names {list(again.model_spec.column_names)} vs {names}", **feat)
    if not efr:
        en, eM, _ = E.expected_full(fc, fr)
        if names != en:
            out.fail("full-names", f"{s!r} on {fr['cols']}\n got {names}\n exp {en}", **feat)
        elif not np.allclose(got, eM, rtol=1e-9, atol=1e-9, equal_nan=True):
            bad = [names[j] for j in range(len(names)) if not np.allclose(got[:, j], eM[:, j], rtol=1e-9, atol=1e-9, equal_nan=True)]
            out.fail("full-values", f"{s!r}: columns {bad} differ\n got {got.tolist()}\n exp {eM.tolist()}", **feat, scaled=any(f["k"] == "lit" for t in fc["terms"] for f in t))
        return out
    # rank reduction on: (i) structure-based prediction
    st_ = read_structure(mm.model_spec)
    en, eM = E.expected_from_structure(fc, fr, [(a, b, c) for a, b, c, _ in st_])
    scaled = any(f["k"] == "lit" for t in fc["terms"] for f in t)
    # literal scale per library term comes from the generator's term, not from the structure
    mine = {frozenset(F.factor_src(f)[1] for f in t if f["k"] != "lit"): E.term_scale(t) for t in fc["terms"]}
    for tf, scoped, scale, cols in st_:
        key = frozenset(x for x in tf if x in {F.factor_src(f)[1] for t in fc["terms"] for f in t if f["k"] != "lit"})
        want = mine.get(key, 1.0) if key else 1.0
        if scoped and abs(scale - want) > 1e-12:
            out.fail("term-scale", f"{s!r}: term {tf} carries scale {scale}, formula says {want}", **feat)
    if names != en:
        out.fail("reduced-names", f"{s!r}\n got {names}\n exp {en}\n structure {st_}", **feat)
    elif not np.allclose(got, eM, rtol=1e-9, atol=1e-9, equal_nan=True):
        bad = [names[j] for j in range(len(names)) if not np.allclose(got[:, j], eM[:, j], rtol=1e-9, atol=1e-9, equal_nan=True)]
        out.fail("reduced-values", f"{s!r}: columns {bad} differ\n got {got.tolist()}\n exp {eM.tolist()}", **feat, scaled=scaled)
    # (ii) label-based, independent of the structure
    D = E.column_dictionary(fc, fr)
    pos = 0
    for tf, scoped, scale, cols in st_:
        key = frozenset(x for x in tf if x in D or any(k.startswith(x + "[") for k in D))
        want = mine.get(frozenset(x for x in tf if not _is_lit(x)), 1.0)
        for label in cols:
            j = pos
            pos += 1
            if label == "Intercept":
                exp = np.ones(fr["n"]) * (want if not [x for x in tf if not _is_lit(x)] else 1.0)
                if not np.allclose(got[:, j], exp):
                    out.fail("intercept-is-ones", f"{s!r}: Intercept column {got[:, j].tolist()}", **feat)
                continue
            pieces = E.split_label(label)
            if not all(p in D for p in pieces):
                out.fail("label-unknown-piece", f"{s!r}: label {label!r} has pieces not produced by any factor: {[p for p in pieces if p not in D]}", **feat)
                continue
            exp = np.ones(fr["n"]) * want
            for p in pieces:
                exp = exp * D[p]
            if not np.allclose(got[:, j], exp, rtol=1e-9, atol=1e-9, equal_nan=True):
                out.fail("column-obeys-label", f"{s!r}: column {label!r} = {got[:, j].tolist()} but its label denotes {exp.tolist()}", **feat, scaled=scaled)
    return out


def predict(spec, fc, fr, efr):
    """Expected (names, matrix) for a materialised spec on frame case `fr` (structure-based when rank reduction is on)."""
    if not efr:
        en, eM, _ = E.expected_full(fc, fr)
        return en, eM
    st_ = read_structure(spec)
    return E.expected_from_structure(fc, fr, [(a, b, c) for a, b, c, _ in st_])


def _is_lit(x):
    return x[:1].isdigit() or x[:1] == "."


def _with_int_product(fc, nar):
    if not nar:
        return fc
    extra = [[{"k": "num", "col": "x"}, {"k": "num", "col": "y"}]]
    return {"intercept": fc["intercept"], "terms": F.normalize_terms(fc["terms"] + extra)}


def gen(max_rows=12):
    return st.builds(
        lambda fr, fc, efr, o, prime, lhs, nar: {"frame": fr, "formula": _with_int_product(fc, nar), "efr": efr, "output": o, "prime": prime, "lhs": lhs, "narrow": nar},
        F.frame(max_rows=max_rows, index_kinds=("default", "default", "shuffled", "offset", "strings")),
        F.formulas(),
        st.booleans(),
        st.sampled_from(["pandas", "numpy", "sparse"]),
        st.sampled_from([False, False, True]),
        st.sampled_from([None, None, None, "2", "0.5"]),
        st.sampled_from([None, None, "int32", "int16", "uint8", "int64"]),
    )


BUDGET_S = {"quick": 110, "thorough": 1500}


def campaigns(tier, shard=0, nshards=1):
    return [Campaign("matrix", gen(12 if tier == "quick" else 30), check_case, 1500 if tier == "quick" else 12000)]
