"""
C05 - output types, entry points and materializers agree with one another.
"""

from __future__ import annotations

import numpy as np
from hypothesis import strategies as st

from ..core import Campaign, Outcome
from ..gen import frames as F
from .C02 import dense

RULE = (
    "C02's (frame, formula) cases (a column optionally renamed to `index`, `__index_level_0__` or `row_nr`) plus null patterns with na_action in {drop, ignore}, rank reduction on/off, evaluated "
    "through variants drawn from {pandas, numpy, sparse output} x {model_matrix, Formula.get_model_matrix, fresh "
    "ModelSpec.get_model_matrix, Materializer(data).get_model_matrix, reuse of the baseline's spec with an output "
    "override} x {pandas materializer, narwhals on the same pandas frame, narwhals on pyarrow.Table.from_pandas(frame)}. "
    "Oracle (differential): every variant returns the same numbers (as float, rtol 1e-12, NaN==NaN under ignore) and the "
    "same model_spec.column_names in the same order as the baseline (pandas materializer, pandas output, model_matrix), "
    "which C02 ties to the reference encoder. Non-trivial = >=1 categorical factor and >=1 interaction, compared across "
    ">=2 materializers or >=2 outputs; distinct by (case, variant)."
    " Additionally: the spec produced by the first variant of each case (its own encoder state) re-applied to the same "
    "data regenerates that variant's matrix; a contrast of a drawn kind on a drawn column is added as a term of its own in "
    "a third of the cases; integer columns of other widths (products beyond the dtype's range) and an Arrow table split into "
    "two chunks with their own dictionaries vs its combine_chunks()."
)
ASSUMPTIONS = [
    "chunk-layout relation (two Arrow chunks with their own dictionaries vs combine_chunks()) is evaluated without row removal (na_action=ignore)",
    "index labels across materializers are not compared (narwhals resets the index); dtypes are not compared (C08)",
    "polars is not installed: narwhals is exercised on pandas and pyarrow inputs only",
]

OUTPUTS = ["pandas", "numpy", "sparse"]
ENTRIES = ["model_matrix", "formula", "spec", "materializer", "reuse-spec"]
MATS = ["pandas", "nw-pandas", "nw-arrow"]


def run_variant(s, df, variant, opts, base_spec, structured=False):
    res = _run_variant(s, df, variant, opts, base_spec)
    return res.rhs if structured else res


def _run_variant(s, df, variant, opts, base_spec):
    import pyarrow as pa
    from formulaic import Formula, ModelSpec
    from formulaic.materializers import NarwhalsMaterializer, PandasMaterializer
    from ..libio import model_matrix

    output, entry, mat = variant
    if mat == "nw-arrow":
        data, mkw = pa.Table.from_pandas(df, preserve_index=False), {}
    elif mat == "nw-pandas":
        data, mkw = df, {"materializer": "narwhals"}
    else:
        data, mkw = df, {}
    kw = dict(opts, output=output)
    if entry == "model_matrix":
        return model_matrix(s, data, **kw, **mkw)
    if entry == "formula":
        return Formula(s).get_model_matrix(data, context={}, **kw, **mkw)
    if entry == "spec":
        return ModelSpec.from_spec(Formula(s), **kw, **mkw).get_model_matrix(data, context={})
    if entry == "materializer":
        cls = PandasMaterializer if mat == "pandas" else NarwhalsMaterializer
        return cls(data, context={}).get_model_matrix(s, **kw)
    if entry == "reuse-spec":
        spec = base_spec
        if mat != "pandas":
            spec = ModelSpec.from_spec(spec, materializer="narwhals")
        return spec.get_model_matrix(data, context={}, output=output)
    raise ValueError(entry)


def case_name(case):
    return next((c for c in case["frame"]["cols"] if c in ("index", "__index_level_0__", "row_nr")), "?")


def check_case(case) -> Outcome:
    from ..libio import model_matrix

    out = Outcome()
    if case.get("rename"):
        # a data column with a name that frame libraries like to use for their own bookkeeping
        case = F.rename_col({k: v for k, v in case.items() if k != "rename"}, *case["rename"])
        out.label("column-named:" + case_name(case))
    fr, fc = case["frame"], case["formula"]
    if case.get("narrow"):
        from .C02 import narrow_ints

        fr = narrow_ints(fr, fc, case["narrow"], out)
    df = F.build(fr)
    s = F.formula_string(fc)
    opts = dict(ensure_full_rank=case["efr"], na_action=case["na_action"])
    structured = bool(case.get("twosided"))
    if structured:
        s = f"z + x ~ {s}"
        out.label("two-sided")
    whole = model_matrix(s, df, output="pandas", **opts)
    base = whole.rhs if structured else whole
    names = list(base.model_spec.column_names)
    B = dense(base).reshape(-1, len(names)) if names else np.zeros((base.shape[0], 0))
    if B.shape[0] == 0:
        # every row dropped: an empty Arrow dictionary column no longer carries its categories - not compared
        out.label("excluded:all-rows-dropped")
        return out
    has_cat = any(f["k"] in ("cat", "C", "ctx") for t in fc["terms"] for f in t)
    if any(f["k"] == "ctx" for t in fc["terms"] for f in t):
        out.label("custom-contrasts")
    has_int = any(F.term_degree(t) >= 2 for t in fc["terms"])
    out.nontrivial = has_cat and has_int
    out.label("na:" + case["na_action"], "efr" if case["efr"] else "no-efr")
    if any(v is None for c in fr["cols"].values() for v in c["values"]):
        out.label("has-nulls")
    for variant in case["variants"]:
        output, entry, mat = variant
        feat = dict(output=output, entry=entry, mat=mat, na=case["na_action"])
        out.label("mat:" + mat, "entry:" + entry, "out:" + output)
        full = _run_variant(s, df, variant, opts, whole.model_spec)
        mm = full.rhs if structured else full
        vnames = list(mm.model_spec.column_names)
        if vnames != names:
            out.fail("column-names-agree", f"{s!r} ({opts}) variant {variant}: {vnames} vs baseline {names}", **feat)
            continue
        try:
            V = dense(mm).reshape(-1, len(names)) if names else np.zeros((mm.shape[0], 0))
        except (TypeError, ValueError) as e:
            out.fail("numeric-values", f"{s!r} variant {variant}: {str(e)[:120]}", **feat)
            continue
        if V.shape != B.shape:
            out.fail("shape-agrees", f"{s!r} ({opts}) variant {variant}: shape {V.shape} vs baseline {B.shape}", **feat)
        elif not np.allclose(V, B, rtol=1e-12, atol=1e-12, equal_nan=True):
            bad = [names[j] for j in range(len(names)) if not np.allclose(V[:, j], B[:, j], rtol=1e-12, atol=1e-12, equal_nan=True)]
            out.fail("values-agree", f"{s!r} ({opts}) variant {variant}: columns {bad} differ\n variant {V.tolist()}\n baseline {B.tolist()}", **feat)
        if output == "pandas" and list(mm.columns) != names:
            out.fail("pandas-labels", f"{s!r} variant {variant}: {list(mm.columns)}", **feat)
        if variant is case["variants"][0] and V.shape == B.shape:
            # the spec produced *by this variant* (its own encoder state) regenerates the variant's matrix
            import pyarrow as pa

            data = pa.Table.from_pandas(df, preserve_index=False) if mat == "nw-arrow" else df
            try:
                again = full.model_spec.get_model_matrix(data, context={})  # (all parts: the rows dropped are pooled)
                again = again.rhs if structured else again
                A = dense(again).reshape(-1, len(names)) if names else np.zeros((again.shape[0], 0))
                if list(again.model_spec.column_names) != names or A.shape != V.shape or not np.allclose(A, V, rtol=1e-12, atol=1e-12, equal_nan=True):
                    out.fail("variant-spec-regenerates", f"{s!r} ({opts}) variant {variant}: its own spec re-applied to the same data gives {list(again.model_spec.column_names)} / shape {A.shape}", **feat)
            except Exception as e:
                out.fail("variant-spec-regenerates", f"{s!r} ({opts}) variant {variant}: its own spec re-applied to the same data raises {type(e).__name__}: {str(e)[:160]}", **feat)
    if case.get("chunked") is not None and len(df) >= 2:
        chunk_layout(out, s, df, opts, case["chunked"], structured)
    return out


def chunk_layout(out, s, df, opts, chunked, structured):
    """An Arrow table is the same data however it is chunked: two chunks whose text columns are dictionary-encoded
    separately (each chunk has its own dictionary) against the same table with its chunks combined (one unified
    dictionary)."""
    import pyarrow as pa
    from ..libio import model_matrix

    split, output = chunked
    # (rows are not removed here: which categories a dictionary column "declares" once whole chunks have been filtered
    # away is Arrow's business, and differs between the two layouts)
    opts = dict(opts, na_action="ignore")
    h = split % (len(df) - 1) + 1
    full = pa.Table.from_pandas(df, preserve_index=False)
    text = [f.name for f in full.schema if pa.types.is_string(f.type) or pa.types.is_large_string(f.type)]
    halves = []
    for half in (df.iloc[:h], df.iloc[h:]):
        t = pa.Table.from_pandas(half, schema=full.schema, preserve_index=False)
        for c in text:
            t = t.set_column(t.schema.get_field_index(c), c, t[c].combine_chunks().cast(pa.string()).dictionary_encode())
        halves.append(t)
    T = pa.concat_tables(halves)
    if not text or all(T[c].chunk(0).dictionary.equals(T[c].chunk(1).dictionary) for c in text):
        return
    out.label("chunked-arrow-dictionaries")
    feat = dict(output=output, mat="nw-arrow", na=opts["na_action"], chunked=True)
    res = []
    for tab in (T, T.combine_chunks()):
        try:
            mm = model_matrix(s, tab, output=output, **opts)
            mm = mm.rhs if structured else mm
            nm = list(mm.model_spec.column_names)
            res.append((nm, dense(mm).reshape(-1, len(nm)) if nm else np.zeros((mm.shape[0], 0))))
        except Exception as e:  # compared below: the layout must not change the outcome, whatever it is
            res.append(type(e).__name__ + ": " + str(e)[:120])
    a, b = res
    if isinstance(a, str) or isinstance(b, str):
        if isinstance(a, str) != isinstance(b, str) or a.split(":")[0] != b.split(":")[0]:
            out.fail("chunk-layout-changes-outcome", f"{s!r} ({opts}) split at {h}: chunked -> {a if isinstance(a, str) else 'matrix'}, combined -> {b if isinstance(b, str) else 'matrix'}", **feat)
        return
    if a[0] != b[0]:
        out.fail("chunk-layout-changes-outcome", f"{s!r} ({opts}) split at {h}: columns {a[0]} (two chunks) vs {b[0]} (combined)", **feat)
    elif a[1].shape != b[1].shape or not np.allclose(a[1], b[1], rtol=1e-12, atol=1e-12, equal_nan=True):
        out.fail("chunk-layout-changes-outcome", f"{s!r} ({opts}) split at {h}: values differ\n two chunks {a[1].tolist()}\n combined {b[1].tolist()}", **feat)


# hand-coded contrast matrices (k x (k-1) and square), always with the complete level list of the column
CUSTOM = [
    {"k": "ctx", "src": "C(A, contr.custom([[1, 0, 0], [0, 1, 0], [0, 0, 1], [-1, -1, -1]]), levels=['b', 'a', 'd', 'c'])"},
    {"k": "ctx", "src": "C(A, contr.custom([[1, 2, 0, 0], [0, 1, 1, 0], [3, 0, 1, 0], [1, 1, 1, 2]]), levels=['a', 'b', 'c', 'd'])"},
    {"k": "ctx", "src": "C(B, contr.custom([[0.5, 1], [-0.5, 1], [0, -2]]), levels=['x', 'y', 'z'])"},
    {"k": "ctx", "src": "C(B, contr.custom({'lin': [-1, 0, 1], 'quad': [1, -2, 1], 'k': [1, 1, 1]}), levels=['y', 'x', 'z'])"},
]


FOCUS = [{"kind": "SAS"}, {"kind": "sum"}, {"kind": "helmert"}, {"kind": "diff"}, {"kind": "poly"}, {"kind": "treatment", "base": None}, None]


def _with_custom(fc, pick):
    if pick is None:
        return fc
    if isinstance(pick, list):
        # a contrast of a drawn kind on a drawn column, as a term of its own (every kind reaches every output)
        col, k = pick
        f = {"k": "C", "col": col, "contrast": FOCUS[k % len(FOCUS)]}
        return {"intercept": fc["intercept"], "terms": F.normalize_terms(fc["terms"] + [[f]])}
    cf, how = pick
    extra = [[cf]] if how == 0 else ([[cf, {"k": "num", "col": "x"}]] if how == 1 else [[cf], [cf, {"k": "num", "col": "y"}]])
    return {"intercept": fc["intercept"], "terms": F.normalize_terms(fc["terms"] + extra)}


def _int_product(fc, nar, ren):
    from .C02 import _with_int_product

    return fc if ren else _with_int_product(fc, nar)


def gen(max_rows=10):
    variant = st.tuples(st.sampled_from(OUTPUTS), st.sampled_from(ENTRIES), st.sampled_from(MATS))
    return st.builds(
        lambda fr, fc, efr, na, vs, two, ren, ch, nar: {"frame": fr, "formula": _int_product(fc, nar, ren), "efr": efr, "na_action": na, "variants": [list(v) for v in vs], "twosided": two, "rename": ren, "chunked": ch, "narrow": None if ren else nar},
        F.frame(max_rows=max_rows, nulls=True, index_kinds=("default", "default", "shuffled", "strings"), bool_col=True),
        st.builds(_with_custom, F.formulas(num_cols=F.NUM_COLS + ["t"]), st.one_of(st.none(), st.none(), st.none(), st.tuples(st.sampled_from(CUSTOM), st.integers(0, 2)),
                                                                             st.tuples(st.sampled_from(["A", "B", "G"]), st.integers(0, 20)).map(list), st.tuples(st.sampled_from(["A", "B", "G"]), st.integers(0, 20)).map(list))),
        st.booleans(),
        st.sampled_from(["drop", "drop", "ignore"]),
        st.lists(variant, min_size=3, max_size=6, unique=True),
        st.sampled_from([False, False, True]),
        st.one_of(st.none(), st.none(), st.none(), st.sampled_from([["y", "index"], ["G", "index"], ["y", "__index_level_0__"], ["y", "row_nr"]])),
        st.one_of(st.none(), st.tuples(st.integers(0, 30), st.sampled_from(OUTPUTS)).map(list)),
        st.sampled_from([None, None, None, "int32", "int16", "uint8", "int64"]),
    )


# ---- exact integers: a column of whole numbers is the same whole numbers in every output ---------------------------

INT_DTYPES = {"int64": (-(2**63), 2**63 - 1), "int32": (-(2**31), 2**31 - 1), "uint32": (0, 2**32 - 1), "int16": (-(2**15), 2**15 - 1), "uint8": (0, 255)}


def check_exact(case) -> Outcome:
    """`0 + i1 + i2 ...` over integer columns of one dtype (values up to the dtype's range, i.e. beyond 2**53 for int64):
    every output of every entry point / materializer holds, under the column's name, exactly the integers of the data
    (oracle: the data itself, compared as Python integers, no tolerance)."""
    import pandas as pd

    out = Outcome()
    lo, hi = INT_DTYPES[case["dtype"]]
    cols = {c: [min(max(v, lo), hi) for v in vals] for c, vals in case["cols"].items()}
    df = pd.DataFrame({c: np.array(v, dtype=case["dtype"]) for c, v in cols.items()})
    use = [c for c in cols if c in case["use"]] or list(cols)[:1]
    s = ("0 + " if case["zero"] else "-1 + ") + " + ".join(use)
    opts = dict(ensure_full_rank=case["efr"], na_action="drop")
    big = any(abs(v) > 2**53 for c in use for v in cols[c])
    out.nontrivial = big
    out.label("exact:" + case["dtype"], "beyond-2**53" if big else "within-2**53")
    base_spec = None
    for variant in case["variants"]:
        output, entry, mat = variant
        feat = dict(output=output, entry=entry, mat=mat, exact=True)
        out.label("mat:" + mat, "entry:" + entry, "out:" + output)
        if entry == "reuse-spec" and base_spec is None:
            from ..libio import model_matrix

            base_spec = model_matrix(s, df, output="pandas", **opts).model_spec
        mm = _run_variant(s, df, variant, opts, base_spec)
        names = list(mm.model_spec.column_names)
        if names != use:
            out.fail("column-names-agree", f"{s!r} variant {variant}: {names} vs {use}", **feat)
            continue
        m = getattr(mm, "__wrapped__", mm)
        if output == "pandas":
            got = {c: [v.item() if hasattr(v, "item") else v for v in m[c].tolist()] for c in names}
        else:
            arr = m.toarray() if hasattr(m, "toarray") else np.asarray(m)
            if arr.shape != (len(df), len(names)):
                out.fail("shape-agrees", f"{s!r} variant {variant}: shape {arr.shape}", **feat)
                continue
            got = {c: [v.item() for v in arr[:, j]] for j, c in enumerate(names)}
        bad = [c for c in names if len(got[c]) != len(cols[c]) or any(g != w for g, w in zip(got[c], cols[c]))]
        if bad:
            out.fail("integers-exact", f"{s!r} ({case['dtype']}) variant {variant}: columns {bad} are not the data's integers: {[got[c] for c in bad]} vs {[cols[c] for c in bad]}", **feat)
    return out


def gen_exact():
    edge = st.sampled_from([2**53 + 1, -(2**53) - 1, 2**60 + 3, 2**62 + 1, 2**63 - 1, -(2**63), 2**31 - 1, 2**32 - 1, 0, 1, -1, 255, 2**15])
    val = st.one_of(edge, st.integers(-(2**63), 2**63 - 1), st.integers(-1000, 1000))
    variant = st.tuples(st.sampled_from(OUTPUTS), st.sampled_from(ENTRIES), st.sampled_from(MATS))
    return st.integers(1, 6).flatmap(
        lambda n: st.builds(
            lambda cols, use, dt, zero, efr, vs: {"cols": cols, "use": use, "dtype": dt, "zero": zero, "efr": efr, "variants": [list(v) for v in vs]},
            st.fixed_dictionaries({"i1": st.lists(val, min_size=n, max_size=n), "i2": st.lists(val, min_size=n, max_size=n), "i3": st.lists(val, min_size=n, max_size=n)}),
            st.lists(st.sampled_from(["i1", "i2", "i3"]), min_size=1, max_size=3, unique=True),
            st.sampled_from(["int64", "int64", "int64", "int32", "uint32", "int16", "uint8"]),
            st.booleans(),
            st.booleans(),
            st.lists(variant, min_size=3, max_size=6, unique=True),
        )
    )


BUDGET_S = {"quick": 110, "thorough": 1500}


def campaigns(tier, shard=0, nshards=1):
    return [
        Campaign("variants", gen(10 if tier == "quick" else 20), check_case, 900 if tier == "quick" else 8000),
        Campaign("exact-integers", gen_exact(), check_exact, 400 if tier == "quick" else 5000),
    ]
