"""
C13 - scaling, polynomial and elementwise transforms meet their numeric contracts.
"""

from __future__ import annotations

import math

import numpy as np
from hypothesis import strategies as st

from ..core import Campaign, Outcome

RULE = (
    "Vectors of length 2-200 built as offset + magnitude * default_rng(seed) draws (magnitudes 1e-6..1e6, offsets up "
    "to 1e8 times the spread, >=2 distinct values by construction), optional NaNs for poly. scale(center in {T,F,number}, "
    "scale in {T,F,number}, ddof in {0,1}), center, standardize: zero mean / unit std(ddof) on the fitted data (relative "
    "to the data's own spread), recorded statistics applied unchanged to follow-up vectors (compared with an independent "
    "two-pass computation), state not modified by reuse, including specs reused through model_matrix. poly(degree<=6, raw): "
    "Gram = I, orthogonal to the constant, same span as raw powers, scale equivariance (poly(s*x+t) == +-poly(x)), NaN rows "
    "exactly where x is NaN and other rows equal to the NaN-free result, follow-up values equal to the exactly fitted "
    "polynomial through the training pairs. Elementwise: log/log2/log10/exp/exp2/exp10 from TRANSFORMS and through "
    "model_matrix equal math.* per element on float and integer inputs; inverse pairs compose to the identity. "
    "scale-integers: the same scale/center/standardize contracts on integer-typed vectors (int64 small / epoch seconds / "
    "epoch nanoseconds whose sum exceeds 2**63, int32, int16, uint8, Python lists of ints), expected values from exact "
    "rational arithmetic, direct calls and through model_matrix + spec reuse. "
    "Non-trivial = (length>=3 and degree>=2) or a follow-up vector or an inverse pair; distinct by (transform, parameters, vector)."
)
ASSUMPTIONS = [
    "constant vectors (sigma = 0) are not generated; poly follow-up polynomial fit only for |x| <= 10 and degree <= 5",
    "tolerances: 1e-9 relative to the spread for means, 1e-9 for unit std, 1e-8 for orthonormality, rtol 1e-12 elementwise",
]


def make_vec(c):
    rng = np.random.default_rng(c["seed"])
    n = c["n"]
    base = rng.normal(0, 1, n) if c["shape"] == "normal" else rng.uniform(-1, 1, n)
    if c["shape"] == "ints":
        base = rng.integers(-5, 6, n).astype(float)
    if c["shape"] == "zero-mean":
        base = np.arange(n, dtype=float) - (n - 1) / 2.0  # exact zero mean
    if np.ptp(base) == 0:
        base[0] += 1.0
    x = c["offset"] + c["mag"] * base
    if np.ptp(x) == 0:  # offset swallowed the spread
        x = c["offset"] + c["mag"] * base * 1e6
    return x


vec = st.fixed_dictionaries(
    {
        "seed": st.integers(0, 10**6),
        "n": st.integers(2, 200),
        "shape": st.sampled_from(["normal", "uniform", "ints", "zero-mean"]),
        "mag": st.sampled_from([1e-6, 1e-3, 1.0, 1.0, 10.0, 1e3, 1e6]),
        "offset": st.sampled_from([0.0, 0.0, 1.0, -3.5, 100.0, 1e4, 1e6, 1e8]),
    }
)


def two_pass(x, ddof):
    m = math.fsum(x) / len(x)
    ss = math.fsum((v - m) ** 2 for v in x)
    return m, math.sqrt(ss / (len(x) - ddof))


def check_scale(case) -> Outcome:
    import pandas as pd
    from ..libio import model_matrix
    from formulaic.transforms import TRANSFORMS

    out = Outcome()
    x = make_vec(case["x"])
    if case["x"]["mag"] * 1e9 < abs(case["x"]["offset"]):
        out.label("excluded:spread-below-float-resolution")
        return out
    which = case["which"]
    ddof = case["ddof"]
    cen, scl = case["center"], case["scale"]
    n = len(x)
    if n - ddof <= 0:
        return out
    m, sd = two_pass(list(x), ddof)
    spread = max(sd, 1e-300)
    state = {}
    out.label("fn:" + which)
    if which == "scale":
        kw = dict(center=cen, scale=scl, ddof=ddof)
        y = TRANSFORMS["scale"](x, _state=state, **kw)
    elif which == "center":
        kw = {}
        cen, scl = True, False
        y = TRANSFORMS["center"](x, _state=state)
    else:
        kw = dict(center=cen, rescale=scl, ddof=ddof)
        y = TRANSFORMS["standardize"](x, _state=state, **kw)
    y = np.asarray(y, dtype=float)
    feat = dict(fn=which, center=cen, scale=scl, ddof=ddof)
    # expected
    cval = m if cen is True else (0.0 if cen is False else float(cen))
    xc = x - cval
    if scl is True:
        sval = math.sqrt(math.fsum(v * v for v in xc) / (n - ddof))
    elif scl is False:
        sval = 1.0
    else:
        sval = float(scl)
    exp = xc / sval
    tol = 1e-9 * (abs(cval) / spread + 1.0)
    if y.shape != exp.shape:
        out.fail("scale-shape", f"{which}({kw}) on {case['x']}: result shape {y.shape} for input shape {exp.shape}", **feat)
        return out
    if not np.all(np.isfinite(y)):
        out.fail("scale-values", f"{which}({kw}) on {case['x']}: non-finite results {y[~np.isfinite(y)][:3].tolist()} for finite data with non-zero spread", **feat)
        return out
    if not np.allclose(y, exp, rtol=1e-9, atol=tol * (spread / sval)):
        out.fail("scale-values", f"{which}({kw}) on {case['x']}: max abs err {np.abs(y - exp).max()} (spread {spread})", **feat)
    if cen is True:
        if abs(math.fsum(y) / n) > 1e-9 * (spread / sval) * (abs(m) / spread * 1e-6 + 1.0) + 1e-7 * abs(m) / sval * 1e-9:
            out.fail("zero-mean", f"{which}({kw}) on {case['x']}: mean {math.fsum(y) / n} (spread {spread / sval})", **feat)
    if cen is True and scl is True:
        _, sdy = two_pass(list(y), ddof)
        if abs(sdy - 1.0) > 1e-9 + 1e-15 * abs(m) / spread:
            out.fail("unit-std", f"{which}({kw}) on {case['x']}: std {sdy}", **feat)
    # re-applying the recorded statistics to the training vector itself is the same computation: bit-identical
    if which != "center" or True:
        fn0 = TRANSFORMS[which]
        st_copy = {k_: (np.array(v_).copy() if isinstance(v_, np.ndarray) else v_) for k_, v_ in state.items()}
        y_again = np.asarray(fn0(x, _state=st_copy, **kw), dtype=float)
        if y_again.shape != y.shape or not np.array_equal(y_again, y, equal_nan=True):
            out.fail("reapplication-not-identical", f"{which}({kw}) on {case['x']}: second application with the recorded state differs by up to {np.abs(y_again - y).max() if y_again.shape == y.shape else 'shape'}", **feat)
    # follow-up: recorded statistics applied unchanged
    fol = make_vec(case["follow"]) if case.get("follow") else None
    if fol is not None:
        out.label("follow-up")
        snap = {k: (np.array(v).copy() if v is not None else None) for k, v in state.items()}
        fn = TRANSFORMS[which]
        y2 = np.asarray(fn(fol, _state=state, **kw), dtype=float)
        exp2 = (fol - cval) / sval
        if y2.shape != exp2.shape:
            out.fail("scale-shape", f"{which}({kw}) follow-up: shape {y2.shape} vs {exp2.shape}", **feat)
            return out
        # float resolution of the recorded mean: ~1e-16 * |mean| in data units (numpy's summation order differs from fsum)
        scale_f = max(np.abs(exp2).max(), 1.0) + 1e-6 * abs(cval) / sval
        if not np.allclose(y2, exp2, rtol=1e-9, atol=1e-9 * scale_f):
            out.fail("follow-up-uses-recorded-statistics", f"{which}({kw}) trained on {case['x']}, applied to {case['follow']}: max err {np.abs(y2 - exp2).max()}", **feat)
        for k, v in snap.items():
            now = state.get(k)
            if (v is None) != (now is None) or (v is not None and not np.array_equal(np.asarray(now), v)):
                out.fail("state-changed-on-reuse", f"{which}({kw}): state[{k!r}] {v} -> {now}", **feat)
        # through model_matrix / model spec
        src = {"scale": f"scale(x, center={cen!r}, scale={scl!r}, ddof={ddof})", "center": "center(x)", "standardize": f"standardize(x, center={cen!r}, rescale={scl!r}, ddof={ddof})"}[which]
        mm = model_matrix(f"{src} - 1", pd.DataFrame({"x": x}))
        mm2 = mm.model_spec.get_model_matrix(pd.DataFrame({"x": fol}))
        a1, a2 = np.asarray(mm, dtype=float).ravel(), np.asarray(mm2, dtype=float).ravel()
        if a1.shape != exp.shape or a2.shape != exp2.shape or not np.allclose(a1, exp, rtol=1e-9, atol=tol * (spread / sval)) or not np.allclose(a2, exp2, rtol=1e-9, atol=1e-9 * scale_f):
            out.fail("formula-follow-up", f"{src} trained on {case['x']}, applied to {case['follow']}", **feat)
        # two differently named quoted columns whose sanitised aliases coincide (`a b`, `a-b`), each inside the same
        # transform: each keeps its own recorded statistics
        def ref_tf(v, vf):
            m_, _ = two_pass(list(v), ddof)
            c_ = m_ if cen is True else (0.0 if cen is False else float(cen))
            vc = v - c_
            s_ = math.sqrt(math.fsum(q * q for q in vc) / (n - ddof)) if scl is True else (1.0 if scl is False else float(scl))
            return vc / s_, (vf - c_) / s_

        if abs(m) <= 1e6 * spread:
            other, other_f = x[::-1] * 3.0 + 7.0, fol[::-1] * 3.0 + 7.0
            qa, qb = src.replace("(x", "(`a b`", 1), src.replace("(x", "(`a-b`", 1)
            mmq = model_matrix(f"{qa} + {qb} - 1", pd.DataFrame({"a b": x, "a-b": other}))
            q1 = np.asarray(mmq, dtype=float)
            q2 = np.asarray(mmq.model_spec.get_model_matrix(pd.DataFrame({"a b": fol, "a-b": other_f})), dtype=float)
            (ea, eaf), (eb, ebf) = ref_tf(x, fol), ref_tf(other, other_f)
            tq = 1e-8 * (max(np.abs(ebf).max(), np.abs(eaf).max(), 1.0) + 1e-6 * (abs(m) * 3 + 7) / max(sval, 1e-300))
            if q1.shape != (n, 2) or q2.shape != (len(fol), 2) or not np.allclose(q1, np.column_stack([ea, eb]), rtol=1e-8, atol=tq) or not np.allclose(q2, np.column_stack([eaf, ebf]), rtol=1e-8, atol=tq):
                out.fail("colliding-quoted-names", f"'{qa} + {qb}' trained on {case['x']} (second column = reversed * 3 + 7), applied to {case['follow']}: columns do not each use their own statistics", **feat)
        # the transform reached through an attribute path (a module / namespace object in the context)
        import types

        _ft = types.SimpleNamespace(**{k_: TRANSFORMS[k_] for k_ in ("scale", "center", "standardize")})
        mm = model_matrix(f"ft.{src} - 1", pd.DataFrame({"x": x}), context={"ft": _ft})
        a2 = np.asarray(mm.model_spec.get_model_matrix(pd.DataFrame({"x": fol}), context={"ft": _ft}), dtype=float).ravel()
        if a2.shape != exp2.shape or not np.allclose(a2, exp2, rtol=1e-9, atol=1e-9 * scale_f):
            out.fail("formula-follow-up", f"ft.{src} (transform called through an attribute path) trained on {case['x']}, applied to {case['follow']}", **feat, attr=True)
        # the transform only inside an interaction of a subset of the fitted spec: the subset still applies the
        # recorded statistics
        w1, w2 = 1.0 + (np.arange(n) % 3), 1.0 + (np.arange(len(fol)) % 2)
        mm = model_matrix(f"{src} + {src}:w - 1", pd.DataFrame({"x": x, "w": w1}))
        sub = mm.model_spec.subset([f"{src}:w"])
        s2_ = np.asarray(sub.get_model_matrix(pd.DataFrame({"x": fol, "w": w2})), dtype=float).ravel()
        if s2_.shape != exp2.shape or not np.allclose(s2_, exp2 * w2, rtol=1e-9, atol=2e-9 * scale_f):
            out.fail("subset-follow-up", f"subset [{src}:w] of '{src} + {src}:w - 1' trained on {case['x']}, applied to {case['follow']}", **feat)
        # ... and when the stateful call sits inside a larger (stateless) factor of the subset
        wrapped = f"I({src} * 2 + 1)"
        mm = model_matrix(f"{wrapped} + x - 1", pd.DataFrame({"x": x}))
        sub = mm.model_spec.subset([wrapped])
        s3_ = np.asarray(sub.get_model_matrix(pd.DataFrame({"x": fol})), dtype=float).ravel()
        if s3_.shape != exp2.shape or not np.allclose(s3_, exp2 * 2 + 1, rtol=1e-9, atol=4e-9 * scale_f):
            out.fail("subset-follow-up", f"subset [{wrapped}] of '{wrapped} + x - 1' trained on {case['x']}, applied to {case['follow']}", **feat, nested=True)
        # the transform nested around center(): the inner transform keeps its own recorded statistic
        if abs(m) <= 1e6 * spread:
            z = x - m
            c2 = math.fsum(z) / n if cen is True else (0.0 if cen is False else float(cen))
            zc = z - c2
            v2 = math.sqrt(math.fsum(v * v for v in zc) / (n - ddof)) if scl is True else (1.0 if scl is False else float(scl))
            nested = src.replace("(x", "(center(x)", 1)
            mm = model_matrix(f"{nested} - 1", pd.DataFrame({"x": x}))
            n1 = np.asarray(mm, dtype=float).ravel()
            n2 = np.asarray(mm.model_spec.get_model_matrix(pd.DataFrame({"x": fol})), dtype=float).ravel()
            e1, e2 = zc / v2, ((fol - m) - c2) / v2
            sf2 = max(np.abs(e2).max(), 1.0) + 1e-6 * abs(m) / v2
            if n1.shape != e1.shape or n2.shape != e2.shape or not np.allclose(n1, e1, rtol=1e-8, atol=1e-8 * sf2) or not np.allclose(n2, e2, rtol=1e-8, atol=1e-8 * sf2):
                out.fail("nested-follow-up", f"{nested} trained on {case['x']}, applied to {case['follow']}: max err {np.abs(n2 - e2).max() if n2.shape == e2.shape else 'shape'}", **feat)
    out.nontrivial = fol is not None or n >= 3
    return out


def gen_scale():
    return st.fixed_dictionaries(
        {
            "x": vec,
            "which": st.sampled_from(["scale", "scale", "center", "standardize"]),
            "center": st.sampled_from([True, True, False, 2.5]),
            "scale": st.sampled_from([True, True, False, 4.0]),
            "ddof": st.sampled_from([0, 1, 0, 1, 0.5, 1.5]),
            "follow": st.one_of(st.none(), vec),
        }
    )


def check_poly(case) -> Outcome:
    from formulaic.transforms import TRANSFORMS

    poly = TRANSFORMS["poly"]
    out = Outcome()
    x = make_vec(case["x"])
    ratio = abs(case["x"]["offset"]) / case["x"]["mag"]
    if ratio > 1e4:
        out.label("excluded:ill-conditioned-offset")
        return out
    otol = 1e-8 * (1.0 + ratio / 10.0)  # orthonormality tolerance grows with offset/spread (float conditioning)
    n = len(x)
    distinct = len(np.unique(x))
    deg = min(case["degree"], distinct - 1)
    if deg < 1:
        return out
    feat = dict(degree=deg, raw=case["raw"])
    out.label(f"degree:{deg}", "raw" if case["raw"] else "orthonormal")
    if case["raw"]:
        P = np.asarray(poly(x, degree=deg, raw=True), dtype=float)
        exp = np.column_stack([x**k for k in range(1, deg + 1)])
        if P.shape != exp.shape or not np.allclose(P, exp, rtol=1e-12, atol=0):
            out.fail("poly-raw", f"poly(raw=True, degree={deg}) on {case['x']}", **feat)
        return out
    state = {}
    P = np.asarray(poly(x, degree=deg, _state=state), dtype=float)
    out.nontrivial = n >= 3 and deg >= 2
    if P.shape != (n, deg):
        out.fail("poly-shape", f"{P.shape}", **feat)
        return out
    # the storage type of the input does not matter: the same values held as float32 give the same basis as those
    # values held as float64 (computation in double precision)
    x32 = x.astype(np.float32)
    if len(np.unique(x32)) > deg and ratio <= 100:
        P32 = np.asarray(poly(x32, degree=deg, _state={}), dtype=float)
        P64 = np.asarray(poly(x32.astype(np.float64), degree=deg, _state={}), dtype=float)
        if P32.shape != P64.shape or not np.allclose(P32, P64, rtol=0, atol=1e-10):
            out.fail("poly-input-dtype", f"poly(degree={deg}) on {case['x']} held as float32 differs from the same values as float64 by {np.abs(P32 - P64).max() if P32.shape == P64.shape else 'shape'}", **feat)
    G = P.T @ P
    if not np.allclose(G, np.eye(deg), atol=otol):
        out.fail("poly-orthonormal", f"poly(degree={deg}) on {case['x']}: Gram deviates by {np.abs(G - np.eye(deg)).max()}", **feat)
    if not np.allclose(P.sum(axis=0), 0, atol=otol * math.sqrt(n)):
        out.fail("poly-orthogonal-to-constant", f"poly(degree={deg}) on {case['x']}: column sums {P.sum(axis=0).tolist()}", **feat)
    # same span as raw powers (of the standardised variable, for conditioning)
    z = (x - x.mean()) / x.std()
    V = np.column_stack([np.ones(n)] + [z**k for k in range(1, deg + 1)])
    if np.linalg.cond(V) < 1e8:
        coef, *_ = np.linalg.lstsq(V, P, rcond=None)
        if not np.allclose(V @ coef, P, atol=1e-7):
            out.fail("poly-span", f"poly(degree={deg}) on {case['x']}: columns are not polynomials of degree <= {deg} in x (residual {np.abs(V @ coef - P).max()})", **feat)
    # equivariance under affine maps of x (orthonormal polynomials are unique up to sign)
    s, t = case["affine"]
    P2 = np.asarray(poly(s * x + t, degree=deg, _state={}), dtype=float)
    signs = np.sign((P * P2).sum(axis=0))
    if abs(t) <= 1e3 * abs(s) * np.ptp(x) and not np.allclose(P2 * signs, P, atol=1e-6):
        out.fail("poly-affine-equivariance", f"poly(degree={deg}) on {case['x']}: poly({s}*x+{t}) differs from +-poly(x) by {np.abs(P2 * signs - P).max()}", **feat)
    # NaN propagation
    if case["nan"]:
        xn = x.copy()
        pos = sorted({p % n for p in case["nan"]})
        keep = np.array([i not in pos for i in range(n)])
        if keep.sum() > deg + 1 and len(np.unique(x[keep])) > deg:
            xn[pos] = np.nan
            Pn = np.asarray(poly(xn, degree=deg, _state={}), dtype=float)
            Pk = np.asarray(poly(x[keep], degree=deg, _state={}), dtype=float)
            out.label("nan")
            if not np.all(np.isnan(Pn[~keep])):
                out.fail("poly-nan-rows", f"poly(degree={deg}): rows with NaN input are {Pn[~keep].tolist()}", **feat)
            elif not np.allclose(Pn[keep], Pk, atol=1e-9):
                out.fail("poly-nan-other-rows", f"poly(degree={deg}) on {case['x']} with NaN at {pos}: non-NaN rows differ from the NaN-free result by {np.abs(Pn[keep] - Pk).max()}", **feat)
    # follow-up: each column is the polynomial fitted exactly through the training pairs
    if case.get("follow") and np.abs(x).max() <= 10 and deg <= 5 and distinct >= deg + 1:
        fol = make_vec(case["follow"])
        fol = np.clip(fol, x.min() - 1, x.max() + 1) if np.abs(fol).max() > 1e3 else fol
        fol = x.min() + (fol - fol.min()) / max(np.ptp(fol), 1e-12) * np.ptp(x)
        snap = {k: dict(v) if isinstance(v, dict) else v for k, v in state.items()}
        P3 = np.asarray(poly(fol, degree=deg, _state=state), dtype=float)
        out.label("follow-up")
        out.nontrivial = True
        if {k: dict(v) if isinstance(v, dict) else v for k, v in state.items()} != snap:
            out.fail("poly-state-changed-on-reuse", f"{snap} -> {state}", **feat)
        xm, xs = x.mean(), x.std()
        Vt = np.column_stack([((x - xm) / xs) ** k for k in range(deg + 1)])
        if np.linalg.cond(Vt) < 1e7:
            coef, *_ = np.linalg.lstsq(Vt, P, rcond=None)
            Vf = np.column_stack([((fol - xm) / xs) ** k for k in range(deg + 1)])
            if not np.allclose(P3, Vf @ coef, atol=1e-6 * max(1.0, np.abs(Vf @ coef).max())):
                out.fail("poly-follow-up", f"poly(degree={deg}) trained on {case['x']}: follow-up values differ from the training polynomials by {np.abs(P3 - Vf @ coef).max()}", **feat)
    return out


def gen_poly():
    return st.fixed_dictionaries(
        {
            "x": vec,
            "degree": st.integers(1, 6),
            "raw": st.sampled_from([False, False, False, True]),
            "nan": st.one_of(st.just([]), st.lists(st.integers(0, 199), min_size=1, max_size=3)),
            "affine": st.tuples(st.sampled_from([1.0, 2.0, -1.0, 1e-3, 1e3, 1e-6]), st.sampled_from([0.0, 1.0, -7.0, 100.0])),
            "follow": st.one_of(st.none(), vec),
        }
    )


FUNCS = {
    "log": (math.log, "pos"),
    "log2": (math.log2, "pos"),
    "log10": (math.log10, "pos"),
    "exp": (math.exp, "mod"),
    "exp2": (lambda v: 2.0**v, "mod"),
    "exp10": (lambda v: 10.0**v, "mod"),
}
INVERSE = {"exp": "log", "exp2": "log2", "exp10": "log10"}


def check_elementwise(case) -> Outcome:
    import pandas as pd
    from ..libio import model_matrix
    from formulaic.transforms import TRANSFORMS

    out = Outcome()
    name = case["fn"]
    ref, dom = FUNCS[name]
    rng = np.random.default_rng(case["seed"])
    n = case["n"]
    if case["ints"]:
        vals = rng.integers(1, 40, n) if dom == "pos" else rng.integers(-30, 31, n)
        if case["dtype"] == "int32":
            vals = vals.astype("int32")
    else:
        vals = rng.uniform(1e-6, 1e6, n) if dom == "pos" else rng.uniform(-30, 30, n)
    out.label("fn:" + name, "ints" if case["ints"] else "floats")
    out.nontrivial = True
    feat = dict(fn=name, ints=case["ints"])
    exp = np.array([ref(float(v)) for v in vals])
    try:
        got = np.asarray(TRANSFORMS[name](vals), dtype=float)
    except Exception as e:
        out.fail("elementwise-raises", f"{name}({vals.tolist()[:8]}...): {type(e).__name__}: {e}", **feat)
        return out
    if got.shape != exp.shape or not np.allclose(got, exp, rtol=1e-12, atol=0):
        j = int(np.argmax(~np.isclose(got, exp, rtol=1e-12, atol=0)))
        out.fail("elementwise-value", f"{name}({vals[j]!r}) = {got[j]!r}, expected {exp[j]!r}", **feat)
    df = pd.DataFrame({"x": vals})
    try:
        mm = np.asarray(model_matrix(f"{name}(x) - 1", df), dtype=float).ravel()
        if not np.allclose(mm, exp, rtol=1e-12, atol=0):
            out.fail("elementwise-through-formula", f"model_matrix('{name}(x)') differs", **feat)
    except Exception as e:
        out.fail("elementwise-raises", f"model_matrix('{name}(x)') on {vals.tolist()[:8]}: {type(e).__name__}: {str(e)[:150]}", **feat)
    if name in INVERSE:
        inv = INVERSE[name]
        fv = vals.astype(float)
        back = np.asarray(TRANSFORMS[inv](TRANSFORMS[name](fv)), dtype=float)
        if not np.allclose(back, fv, rtol=1e-12, atol=1e-12):
            out.fail("inverse-pair", f"{inv}({name}(x)) != x: max err {np.abs(back - fv).max()}", **feat)
        mm = np.asarray(model_matrix(f"{inv}({name}(x)) - 1", pd.DataFrame({"x": fv})), dtype=float).ravel()
        if not np.allclose(mm, fv, rtol=1e-12, atol=1e-12):
            out.fail("inverse-pair-through-formula", f"{inv}({name}(x))", **feat)
    return out


def gen_elementwise():
    return st.fixed_dictionaries(
        {
            "fn": st.sampled_from(sorted(FUNCS)),
            "seed": st.integers(0, 10**6),
            "n": st.integers(1, 30),
            "ints": st.booleans(),
            "dtype": st.sampled_from(["int64", "int32"]),
        }
    )


# ---- scale / center / standardize on integer-typed vectors -------------------------------------------------------
INT_KINDS = {
    # name: (dtype, base, step) - values are base + step * k for small integers k (exactly representable in the dtype)
    "small": ("int64", 0, 1),
    "epoch-s": ("int64", 1_700_000_000, 3600),
    "epoch-ns": ("int64", 1_700_000_000_000_000_000, 3_600_000_000_000),
    "int32-large": ("int32", 40_000, 1_000),
    "int16": ("int16", 150, 10),
    "uint8": ("uint8", 100, 3),
    "pylist": ("list", 3_000_000_000, 7_000),
}


def make_ints(c):
    """exact Python ints plus the typed container handed to the library"""
    dtype, base, step = INT_KINDS[c["kind"]]
    rng = np.random.default_rng(c["seed"])
    ks = [int(k) for k in rng.integers(0, 50, c["n"])]
    if len(set(ks)) == 1:
        ks[0] = (ks[0] + 1) % 50
    vals = [base + step * k for k in ks]
    return vals, (list(vals) if dtype == "list" else np.array(vals, dtype=dtype))


def check_scale_ints(case) -> Outcome:
    """integer columns are real vectors too: the contract is that of the same numbers held as floats (the statistics
    are computed exactly here, in rational arithmetic)"""
    import warnings
    from fractions import Fraction

    import pandas as pd
    from ..libio import model_matrix
    from formulaic.transforms import TRANSFORMS

    out = Outcome()
    vals, x = make_ints(case["x"])
    which, ddof, cen, scl = case["which"], case["ddof"], case["center"], case["scale"]
    n = len(vals)
    if n - ddof <= 0:
        return out
    if which == "center":
        kw, cen, scl = {}, True, False
    elif which == "scale":
        kw = dict(center=cen, scale=scl, ddof=ddof)
    else:
        kw = dict(center=cen, rescale=scl, ddof=ddof)
    out.label("fn:" + which, "ints:" + case["x"]["kind"])
    feat = dict(fn=which, center=cen, scale=scl, ddof=ddof, ints=True)
    cval = Fraction(sum(vals), n) if cen is True else (Fraction(0) if cen is False else Fraction(cen))
    xc = [Fraction(v) - cval for v in vals]
    den = Fraction(n) - Fraction(ddof)
    sval = math.sqrt(float(sum(v * v for v in xc) / den)) if scl is True else (1.0 if scl is False else float(scl))
    exp = np.array([float(v) / sval for v in xc])
    big = float(max(abs(v) for v in vals))
    # float64 holds the inputs / the mean to ~1e-16 relative; everything else is relative to the result's own size
    atol = 1e-13 * big / sval + 1e-9 * max(np.abs(exp).max(), 1.0)
    state = {}
    with warnings.catch_warnings():
        warnings.simplefilter("ignore")
        y = np.asarray(TRANSFORMS[which](x, _state=state, **kw), dtype=float)
    desc = f"{which}({kw}) on {case['x']['kind']} integers {vals[:6]}{'...' if n > 6 else ''} (n={n})"
    if y.shape != exp.shape:
        out.fail("scale-shape", f"{desc}: result shape {y.shape}", **feat)
        return out
    if not np.allclose(y, exp, rtol=1e-9, atol=atol):
        out.fail("scale-values", f"{desc}: got {y[:4].tolist()} expected {exp[:4].tolist()}", **feat)
    fvals, fol = make_ints(case["follow"]) if case.get("follow") else (None, None)
    if fol is not None and INT_KINDS[case["follow"]["kind"]][0] != INT_KINDS[case["x"]["kind"]][0]:
        fvals = fol = None
    if fol is not None:
        out.label("follow-up")
        exp2 = np.array([float(Fraction(v) - cval) / sval for v in fvals])
        atol2 = 1e-13 * max(big, float(max(abs(v) for v in fvals))) / sval + 1e-9 * max(np.abs(exp2).max(), 1.0)
        with warnings.catch_warnings():
            warnings.simplefilter("ignore")
            y2 = np.asarray(TRANSFORMS[which](fol, _state=state, **kw), dtype=float)
        if y2.shape != exp2.shape or not np.allclose(y2, exp2, rtol=1e-9, atol=atol2):
            out.fail("follow-up-uses-recorded-statistics", f"{desc}, applied to {fvals[:6]}", **feat)
        src = {"scale": f"scale(x, center={cen!r}, scale={scl!r}, ddof={ddof})", "center": "center(x)", "standardize": f"standardize(x, center={cen!r}, rescale={scl!r}, ddof={ddof})"}[which]
        with warnings.catch_warnings():
            warnings.simplefilter("ignore")
            mm = model_matrix(f"{src} - 1", pd.DataFrame({"x": x}))
            mm2 = mm.model_spec.get_model_matrix(pd.DataFrame({"x": fol}))
        a1, a2 = np.asarray(mm, dtype=float).ravel(), np.asarray(mm2, dtype=float).ravel()
        if a1.shape != exp.shape or a2.shape != exp2.shape or not np.allclose(a1, exp, rtol=1e-9, atol=atol) or not np.allclose(a2, exp2, rtol=1e-9, atol=atol2):
            out.fail("formula-follow-up", f"{src} trained on {case['x']['kind']} integers {vals[:6]}, applied to {fvals[:6]}", **feat)
    out.nontrivial = True
    return out


int_vec = st.fixed_dictionaries({"seed": st.integers(0, 10**6), "n": st.integers(2, 40), "kind": st.sampled_from(sorted(INT_KINDS))})


def gen_scale_ints():
    return st.fixed_dictionaries(
        {
            "x": int_vec,
            "which": st.sampled_from(["scale", "scale", "center", "standardize"]),
            "center": st.sampled_from([True, True, False, 2.5]),
            "scale": st.sampled_from([True, True, False, 4.0]),
            "ddof": st.sampled_from([0, 1, 0, 1, 0.5]),
            "follow": st.one_of(st.none(), int_vec),
        }
    )


N = {"quick": (1500, 1500, 600, 500), "thorough": (20000, 20000, 6000, 8000)}
BUDGET_S = {"quick": 90, "thorough": 1200}


def campaigns(tier, shard=0, nshards=1):
    n = N[tier]
    return [
        Campaign("scale", gen_scale(), check_scale, n[0]),
        Campaign("poly", gen_poly(), check_poly, n[1]),
        Campaign("elementwise", gen_elementwise(), check_elementwise, n[2]),
        Campaign("scale-integers", gen_scale_ints(), check_scale_ints, n[3]),
    ]
