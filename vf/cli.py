"""
./check <ID> --tier quick|thorough [--replay PATH] [--no-shrink]

Exit codes: 0 held (possibly with KNOWN-FINDING lines); 1 violation not listed
in known_findings.json (VIOLATION line printed); 2 harness error.
"""

from __future__ import annotations

import argparse
import glob
import importlib
import json
import os
import sys
import time
import traceback
import warnings

from . import core
from .core import Campaign, Findings, HarnessError, Stats


def _assert_repo() -> None:
    import formulaic

    want = os.path.realpath(core.REPO)
    got = os.path.realpath(os.path.dirname(os.path.dirname(formulaic.__file__)))
    if got != want:
        print(f"HARNESS-ERROR: formulaic imported from {got}, expected {want}")
        sys.exit(2)


def _campaign_by_name(mod, tier, name):
    er = getattr(mod, "EXTRA_REPLAY", {})
    if name in er:
        return core.Campaign(name, None, er[name], 0)
    for c in mod.campaigns(tier, shard=0, nshards=1):
        if c.name == name:
            return c
    # corpus cases may name campaigns that exist only in the other tier
    for t in ("thorough", "quick"):
        for c in mod.campaigns(t, shard=0, nshards=1):
            if c.name == name:
                return c
    raise HarnessError(f"unknown campaign {name!r}")


def main(argv=None) -> int:
    ap = argparse.ArgumentParser()
    ap.add_argument("prop")
    ap.add_argument("--tier", default=os.environ.get("VERIF_TIER", "quick"), choices=["quick", "thorough"])
    ap.add_argument("--replay", default=None)
    ap.add_argument("--no-shrink", action="store_true")
    ap.add_argument("--shards", type=int, default=None)
    args = ap.parse_args(argv)
    prop = args.prop
    seed = int(os.environ.get("VERIF_SEED", "1") or "1")
    t0 = time.time()
    warnings.simplefilter("ignore")
    try:
        _assert_repo()
        mod = importlib.import_module(f"vf.props.{prop}")

        # ---------------- replay ----------------
        if args.replay:
            path = args.replay
            if not os.path.isabs(path):
                path = os.path.join(core.VERIF_DIR, path)
            with open(path) as f:
                doc = json.load(f)
            c = _campaign_by_name(mod, args.tier, doc["campaign"])
            out = core.safe_check(c.check_case, doc["case"])
            findings = Findings(prop)
            bad = 0
            for v in out.violations:
                kf = findings.match(v.sig)
                if kf:
                    print(f"KNOWN-FINDING: property={prop} {kf['id']}: {kf['what']}")
                else:
                    bad += 1
                    print(f"violation signature={json.dumps(v.sig, sort_keys=True)}\n  {v.msg}")
            if bad:
                print(f"VIOLATION property={prop} replay={os.path.relpath(path, core.VERIF_DIR)}")
                return 1
            print(f"replay ok: property={prop} (no violation)")
            return 0

        # ---------------- campaigns ----------------
        stats = Stats()
        # 1. committed regression corpus
        for path in sorted(glob.glob(os.path.join(core.VERIF_DIR, "corpus", prop, "*.json"))):
            with open(path) as f:
                doc = json.load(f)
            c = _campaign_by_name(mod, args.tier, doc["campaign"])
            out = core.safe_check(c.check_case, doc["case"])
            out.classes.append("corpus")
            stats.record(c.name, doc["case"], out)
        ncorpus = stats.evaluations

        # 2. generated campaigns
        nshards = args.shards or (getattr(mod, "THOROUGH_SHARDS", 16) if args.tier == "thorough" else getattr(mod, "QUICK_SHARDS", 1))
        if nshards > 1:
            stats.merge(core.run_sharded(prop, args.tier, seed, nshards))
        else:
            budget = getattr(mod, "BUDGET_S", {}).get(args.tier)
            for c in mod.campaigns(args.tier, shard=0, nshards=1):
                core.run_campaign(c, seed, stats, budget_s=budget)

        extra = {"corpus_cases": ncorpus, "shards": nshards}
        # 3. property-specific extra phases (subprocess batteries, fuzzers)
        if hasattr(mod, "extra_phase"):
            extra.update(mod.extra_phase(args.tier, seed, stats) or {})

        # ---------------- triage ----------------
        findings = Findings(prop)
        unknown = []
        for k, b in stats.buckets.items():
            kf = findings.match(b["sig"])
            if kf:
                findings.hits[kf["id"]] += b["count"]
            else:
                unknown.append((k, b))
        unknown.sort(key=lambda kb: kb[1]["size"])
        nviol = len(unknown)
        reported = []
        for k, b in unknown[:3]:
            case = b["case"]
            if not args.no_shrink and not b["campaign"].startswith("extra:"):
                try:
                    c = _campaign_by_name(mod, args.tier, b["campaign"])
                    case = core.shrink_bucket(c, seed, k, case, max_s=c.max_shrink_s if args.tier == "quick" else 4 * c.max_shrink_s)
                except HarnessError:
                    pass
            path = core.write_replay(prop, b["campaign"], case, b["sig"], b["msg"])
            reported.append({"signature": b["sig"], "count": b["count"], "replay": path, "message": b["msg"][:500]})
            print(f"violation signature={json.dumps(b['sig'], sort_keys=True)} count={b['count']}\n  {b['msg'][:800]}")
            print(f"VIOLATION property={prop} replay={path}")
        for k, b in unknown[3:]:
            path = core.write_replay(prop, b["campaign"], b["case"], b["sig"], b["msg"])
            reported.append({"signature": b["sig"], "count": b["count"], "replay": path, "message": b["msg"][:500]})
            print(f"VIOLATION property={prop} replay={path}")
        for entry in findings.open:
            n = findings.hits.get(entry["id"], 0)
            print(f"KNOWN-FINDING: property={prop} {entry['id']}: {entry['what']} (re-observed {n}x in this run)")
        extra["known_finding_hits"] = dict(findings.hits)
        extra["violation_buckets"] = reported
        wall = time.time() - t0
        core.write_evidence(prop, args.tier, seed, stats, mod, wall, nviol, extra)
        print(
            f"{prop} tier={args.tier} seed={seed} evaluations={stats.evaluations} "
            f"distinct_nontrivial={len(stats.nontrivial_hashes)} rejected={stats.rejected} "
            f"violations={nviol} wall={wall:.1f}s"
        )
        return 1 if nviol else 0
    except HarnessError as e:
        print(f"HARNESS-ERROR: {e}")
        return 2
    except SystemExit:
        raise
    except BaseException:
        print("HARNESS-ERROR: " + traceback.format_exc())
        return 2


if __name__ == "__main__":
    sys.exit(main())
